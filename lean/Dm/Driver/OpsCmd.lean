import Dm.Model.Ops
import Dm.Driver.Sexp
import Dm.Driver.Wire

/-
`op (op <Trait> <forward 0|1> <item>)`
item := (struct <hexname> unit|tuple|named (f <hexname|-> <hex type tokens>)...)
      | (enum <hexname> (v <hexname> unit|tuple|named (f ..)...)...)
Answer: `ok method=<m> body=<whitespace-free tokens>` | `panic`
-/
namespace Dm.OpsCmd
open Dm.Ops Dm.Sexp Dm.Wire

structure F where
  name : Option String
  ty : String

inductive Shape where
  | unit | tuple | named

structure V where
  name : String
  shape : Shape
  fields : List F

inductive Item where
  | struct (name : String) (shape : Shape) (fields : List F)
  | enum (name : String) (vs : List V)

def dF : Sexp → Option F
  | Sexp.list [.atom "f", .atom n, .atom t] => do
    let n ← (if n == "-" then some none else (hexDecode n).map some)
    let t ← hexDecode t
    pure { name := n, ty := t }
  | _ => none

def dShape : String → Option Shape
  | "unit" => some .unit | "tuple" => some .tuple | "named" => some .named | _ => none

def dItem : Sexp → Option Item
  | Sexp.list (.atom "struct" :: .atom n :: .atom sh :: fs) => do
    let n ← hexDecode n
    let sh ← dShape sh
    let fs ← fs.mapM dF
    pure (.struct n sh fs)
  | Sexp.list (.atom "enum" :: .atom n :: vs) => do
    let n ← hexDecode n
    let vs ← vs.mapM fun (v : Sexp) => match v with
      | Sexp.list (.atom "v" :: .atom vn :: .atom sh :: fs) => do
        let vn ← hexDecode vn
        let sh ← dShape sh
        let fs ← fs.mapM dF
        pure ({ name := vn, shape := sh, fields := fs } : V)
      | _ => none
    pure (.enum n vs)
  | _ => none

/-- How the leaves of the IR are spelled in a given context. -/
structure Ctx where
  lhs : Nat → String
  rhs : Nat → String
  /-- spelling of a binary call: receiver text, argument text, field index -/
  bin : String → String → Nat → String
  un : String → String
  empty : Nat → String

partial def rX (c : Ctx) (i : Nat) : X → String
  | .fld .lhs k => c.lhs k
  | .fld .rhs k => c.rhs k
  | .scalar => "rhs"
  | .bin recv arg => c.bin (rX c i recv) (rX c i arg) i
  | .un recv => c.un (rX c i recv)
  | .emptyFold k => c.empty k

def member (fs : List F) (k : Nat) : String :=
  match fs[k]? with
  | some f => (match f.name with | some n => n | none => toString k)
  | none => toString k

/-- `path(inits)` / `path{name:init,..}` -/
def construct (path : String) (shape : Shape) (fs : List F) (inits : List String) : String :=
  match shape with
  | .named =>
    path ++ "{" ++ ",".intercalate ((fs.zip inits).map fun (f, e) => f.name.getD "" ++ ":" ++ e) ++ "}"
  | _ => path ++ "(" ++ ",".intercalate inits ++ ")"

def renderAll (c : Ctx) (xs : List X) : List String := xs.zipIdx.map fun (x, i) => rX c i x

def addLike (name m : String) (item : Item) : Option String :=
  match item with
  | .struct _ .unit _ => none
  | .struct n sh fs =>
    let c : Ctx := { lhs := fun k => "self." ++ member fs k, rhs := fun k => "rhs." ++ member fs k,
                     bin := fun a b _ => s!"{a}.{m}({b})", un := id, empty := fun _ => "" }
    some (construct n sh fs (renderAll c (fieldwiseBin fs.length)))
  | .enum n vs =>
    let arms := (enumArms (vs.map fun v => match v.shape with | .unit => VKind.unit | _ => VKind.fields v.fields.length)).map fun arm =>
      match arm with
      | .same v inits =>
        match vs[v]? with
        | some vv =>
          let path := s!"{n}::{vv.name}"
          let c : Ctx := { lhs := fun k => s!"__l_{k}", rhs := fun k => s!"__r_{k}",
                           bin := fun a b _ => s!"{a}.{m}({b})", un := id, empty := fun _ => "" }
          let lp := construct path vv.shape vv.fields ((List.range vv.fields.length).map fun k => s!"__l_{k}")
          let rp := construct path vv.shape vv.fields ((List.range vv.fields.length).map fun k => s!"__r_{k}")
          s!"({lp},{rp})=>" ++ "{" ++ s!"derive_more::core::result::Result::Ok({construct path vv.shape vv.fields (renderAll c inits)})" ++ "}"
        | none => "?"
      | .unitErr v =>
        match vs[v]? with
        | some vv => s!"({n}::{vv.name},{n}::{vv.name})=>derive_more::core::result::Result::Err(derive_more::BinaryError::Unit(derive_more::UnitError::new(\"{m}\")))"
        | none => "?"
      | .mismatch => s!"_=>derive_more::core::result::Result::Err(derive_more::BinaryError::Mismatch(derive_more::WrongVariantError::new(\"{m}\")))"
    let _ := name
    some ("match(self,rhs){" ++ ",".intercalate arms ++ "}")

def addAssignLike (m : String) (item : Item) : Option String :=
  match item with
  | .struct _ .unit _ => none
  | .struct _ _ fs =>
    let c : Ctx := { lhs := fun k => "self." ++ member fs k, rhs := fun k => "rhs." ++ member fs k,
                     bin := fun a b _ => s!"{a}.{m}({b})", un := id, empty := fun _ => "" }
    some (String.join ((renderAll c (fieldwiseBin fs.length)).map (· ++ ";")))
  | .enum .. => none

def mulLike (trait m : String) (item : Item) : Option String :=
  match item with
  | .struct n sh fs =>
    let sh' := match sh with | .unit => Shape.named | s => s
    let c : Ctx := { lhs := fun k => "self." ++ member fs k, rhs := fun _ => "rhs",
                     bin := fun a b i => s!"<{(fs[i]?.map (·.ty)).getD ""}asderive_more::with_trait::{trait}<__RhsT>>::{m}({a},{b})",
                     un := id, empty := fun _ => "" }
    some (construct n sh' fs (renderAll c (fieldwiseScalar fs.length)))
  | .enum .. => none

def mulAssignLike (trait m : String) (item : Item) : Option String :=
  match item with
  | .struct _ _ fs =>
    let c : Ctx := { lhs := fun k => "&mutself." ++ member fs k, rhs := fun _ => "rhs",
                     bin := fun a b i => s!"<{(fs[i]?.map (·.ty)).getD ""}asderive_more::with_trait::{trait}<__RhsT>>::{m}({a},{b})",
                     un := id, empty := fun _ => "" }
    some (String.join ((renderAll c (fieldwiseScalar fs.length)).map (· ++ ";")))
  | .enum .. => none

def notLike (m : String) (item : Item) : Option String :=
  match item with
  | .struct _ .unit _ => none
  | .struct n sh fs =>
    let c : Ctx := { lhs := fun k => "self." ++ member fs k, rhs := fun _ => "", bin := fun a _ _ => a,
                     un := fun a => s!"{a}.{m}()", empty := fun _ => "" }
    some (construct n sh fs (renderAll c (fieldwiseUn fs.length)))
  | .enum n vs =>
    let hasUnit := notHasUnit (vs.map fun v => match v.shape with | .unit => VKind.unit | _ => VKind.fields v.fields.length)
    let arms := vs.map fun v =>
      let path := s!"{n}::{v.name}"
      match v.shape with
      | .unit => s!"{path}=>derive_more::core::result::Result::Err(derive_more::UnitError::new(\"{m}\"))"
      | sh =>
        let c : Ctx := { lhs := fun k => s!"__{k}", rhs := fun _ => "", bin := fun a _ _ => a,
                         un := fun a => s!"{a}.{m}()", empty := fun _ => "" }
        let pat := construct path sh v.fields ((List.range v.fields.length).map fun k => s!"__{k}")
        let body := construct path sh v.fields (renderAll c (fieldwiseUn v.fields.length))
        let body := if hasUnit then s!"derive_more::core::result::Result::Ok({body})" else body
        pat ++ "=>{" ++ body ++ "}"
    some ("matchself{" ++ ",".intercalate arms ++ "}")

def sumLike (trait m : String) (item : Item) : Option String :=
  match item with
  | .struct n sh fs =>
    let sh' := match sh with | .unit => Shape.named | s => s
    let opTrait := if trait == "Sum" then "Add" else "Mul"
    let c : Ctx := { lhs := fun _ => "", rhs := fun _ => "", bin := fun a _ _ => a, un := id,
                     empty := fun k => s!"derive_more::with_trait::{trait}::{m}(derive_more::core::iter::empty::<{(fs[k]?.map (·.ty)).getD ""}>())" }
    some s!"iter.fold({construct n sh' fs (renderAll c (identityInit fs.length))},derive_more::core::ops::{opTrait}::{opTrait.toLower})"
  | .enum .. => none

def cmdOp (line : String) : String :=
  match Sexp.parse line with
  | some (Sexp.list [.atom "op", .atom trait, .atom fwd, item]) =>
    match dItem item with
    | none => "bad-op"
    | some item =>
      let fwd := fwd == "1"
      let m := methodName trait
      let name := match item with | .struct n .. => n | .enum n _ => n
      let body : Option String :=
        if ["Add", "Sub", "BitAnd", "BitOr", "BitXor"].contains trait then addLike name m item
        else if ["AddAssign", "SubAssign", "BitAndAssign", "BitOrAssign", "BitXorAssign"].contains trait then addAssignLike m item
        else if ["Mul", "Div", "Rem", "Shr", "Shl"].contains trait then
          (if fwd then addLike name m item else mulLike trait m item)
        else if ["MulAssign", "DivAssign", "RemAssign", "ShrAssign", "ShlAssign"].contains trait then
          (if fwd then addAssignLike m item else mulAssignLike trait m item)
        else if ["Not", "Neg"].contains trait then notLike m item
        else if ["Sum", "Product"].contains trait then sumLike trait m item
        else none
      let isEnum := match item with | .enum .. => true | _ => false
      -- `forward` is a struct-level attribute only (`AttrParams::struct_`): on an enum it is an error
      if fwd && isEnum then "err" else
      match body with
      | some b => s!"ok method={m} body={b}"
      | none => "panic"
  | _ => "bad-op"

end Dm.OpsCmd

import Dm.Model.ExprSplit
import Dm.Driver.Sexp
import Dm.Driver.Wire

/-
`sp <sexp>`: `(toks <tok>...)` with tok := (i <hex>) | (p <hex char> j|a) | (l <hex>) | (g P|B|C|N <tok>...)
Answer: `ok [alias|tokens|ident]...` | `err`
-/
namespace Dm.SplitCmd
open Dm.Split Dm.Sexp Dm.Wire

partial def dTok : Sexp → Option Tok
  | .list [.atom "i", .atom h] => (hexDecode h).map Tok.ident
  | .list [.atom "l", .atom h] => (hexDecode h).map Tok.lit
  | .list [.atom "p", .atom h, .atom j] =>
    match (hexDecode h).map String.toList with
    | some [c] => some (.punct c (j == "j"))
    | _ => none
  | .list (.atom "g" :: .atom d :: ts) => do
    let d ← (match d with
      | "P" => some Delim.paren | "B" => some Delim.bracket | "C" => some Delim.brace
      | "N" => some Delim.none | _ => none)
    let ts ← ts.mapM dTok
    pure (.group d ts)
  | _ => none

mutual
  partial def rTok : Tok → String
    | .ident s => s
    | .punct c _ => String.singleton c
    | .lit s => s
    | .group d ts =>
      let inner := rToks ts
      match d with
      | .paren => "(" ++ inner ++ ")"
      | .bracket => "[" ++ inner ++ "]"
      | .brace => "{" ++ inner ++ "}"
      | .none => inner
  partial def rToks (ts : List Tok) : String := String.join (ts.map rTok)
end

def US : String := String.singleton (Char.ofNat 0x1f)
def RS : String := String.singleton (Char.ofNat 0x1e)
def GS : String := String.singleton (Char.ofNat 0x1d)

def rArg (a : Arg) : String :=
  let id := match a.expr with | .ident s => s | .other _ => ""
  a.alias.getD "" ++ US ++ rToks a.expr.toks ++ US ++ id

def cmdSplit (line : String) : String :=
  match Sexp.parse line with
  | some (Sexp.list (.atom "toks" :: ts)) =>
    match ts.mapM dTok with
    | some ts =>
      match parseArgs ts with
      | some args => s!"ok n={args.length}" ++ GS ++ "args=" ++ RS.intercalate (args.map rArg) ++ GS ++ "emit=" ++ rToks (emitArgs args)
      | none => "err"
    | none => "bad-op"
  | _ => "bad-op"

end Dm.SplitCmd

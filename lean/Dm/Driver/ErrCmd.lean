import Dm.Model.ErrorSrc

/-
`es <named 0|1> <defaultEnabled 0|1> <field>;<field>;... [vi]`  (no fields: `-`; `vi`: an enum variant carrying `#[error(ignore)]`)
field := <s|b|o>,<0|1>,<attr>   attr := `-` (none) | `e` (empty) | params joined by `+` from i,s,ns,b,nb
Answer: `ok src=<all index|-> bt=<all index|->` | `err`
-/
namespace Dm.ErrCmd
open Dm.Err

def dParam : String → Option Param
  | "i" => some .ignore | "s" => some .source | "ns" => some .notSource
  | "b" => some .backtrace | "nb" => some .notBacktrace | _ => none

def dField (s : String) : Option FieldE :=
  match s.splitOn "," with
  | [n, t, a] => do
    let n ← (match n with | "s" => some FName.source | "b" => some FName.backtrace | "o" => some FName.other | _ => none)
    let attr ← (if a == "-" then some none else if a == "e" then some (some []) else
      ((a.splitOn "+").mapM dParam).map some)
    pure { name := n, tyBacktrace := t == "1", attr := attr }
  | _ => none

def showIdx : Option Nat → String
  | some n => toString n
  | none => "-"

def cmdEs (args : List String) : String :=
  match args with
  | [named, de, fs] =>
    let fields := if fs == "-" then some [] else (fs.splitOn ";").mapM dField
    match fields with
    | none => "bad-op"
    | some fields =>
      let sh : Shape := { named := named == "1", fields := fields, defaultEnabled := de == "1" }
      match parseFields sh with
      | .error _ => "err"
      | .ok (s, b) =>
        let sa := s.bind (allIdx sh)
        let ba := b.bind (allIdx sh)
        s!"ok src={showIdx sa} bt={showIdx ba}"
  | [named, de, fs, "vi"] =>
    let fields := if fs == "-" then some [] else (fs.splitOn ";").mapM dField
    match fields with
    | none => "bad-op"
    | some fields =>
      let sh : Shape := { named := named == "1", fields := fields, defaultEnabled := de == "1" }
      match variantSource true sh with
      | .error _ => "err"
      | .ok s => s!"ok src={showIdx s} bt=-"
  | _ => "bad-op"

end Dm.ErrCmd

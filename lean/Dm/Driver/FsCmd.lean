import Dm.Model.FromStr
import Dm.Driver.Wire

/-
`fs <hexname>:<hexlower> <hexname>:<hexlower> ...` -> `ok <key>|<guard or ->|<variant>;...` (in variant order)
-/
namespace Dm.FsCmd
open Dm.FS Dm.Wire

def cmdFs (args : List String) : String :=
  let pairs := args.mapM fun a =>
    match a.splitOn ":" with
    | [n, l] => do
      let n ← hexDecode n
      let l ← hexDecode l
      pure (n, l)
    | _ => none
  match pairs with
  | none => "bad-op"
  | some pairs =>
    let lower : String → String := fun s =>
      match pairs.find? (fun (p : String × String) => p.1 = s) with
      | some p => p.2
      | none => s
    let as := arms lower (pairs.map (·.1))
    "ok " ++ ";".intercalate (as.map fun a =>
      hexEncode a.key ++ "|" ++ (match a.guard with | some g => hexEncode g | none => "-") ++ "|" ++ hexEncode a.variant)

end Dm.FsCmd

/- S-expressions for structured driver requests: `(` `)` and space-separated atoms. -/
namespace Dm.Sexp

inductive Sexp where
  | atom (s : String)
  | list (xs : List Sexp)
  deriving Inhabited, Repr

inductive Tok where
  | lp | rp | at (s : String)

def tokenize (s : String) : List Tok :=
  let rec go (cs : List Char) (cur : List Char) (acc : List Tok) : List Tok :=
    let flush (acc : List Tok) := if cur.isEmpty then acc else Tok.at (String.ofList cur.reverse) :: acc
    match cs with
    | [] => (flush acc).reverse
    | '(' :: r => go r [] (Tok.lp :: flush acc)
    | ')' :: r => go r [] (Tok.rp :: flush acc)
    | ' ' :: r => go r [] (flush acc)
    | c :: r => go r (c :: cur) acc
  go s.toList [] []

/-- Parses one expression; returns it with the remaining tokens. -/
partial def parseOne : List Tok → Option (Sexp × List Tok)
  | Tok.at s :: r => some (.atom s, r)
  | Tok.lp :: r =>
    let rec items (ts : List Tok) (acc : List Sexp) : Option (Sexp × List Tok) :=
      match ts with
      | Tok.rp :: r => some (.list acc.reverse, r)
      | [] => none
      | _ =>
        match parseOne ts with
        | some (x, r) => items r (x :: acc)
        | none => none
    items r []
  | _ => none

def parse (s : String) : Option Sexp :=
  match parseOne (tokenize s) with
  | some (x, []) => some x
  | _ => none

end Dm.Sexp

/- S-expressions for structured driver requests: `(` `)` and space-separated atoms. -/
namespace Dm.Sexp

inductive Sexp where
  | atom (s : String)
  | list (xs : List Sexp)
  deriving Inhabited, Repr

inductive STok where
  | lp | rp | at (s : String)

def tokenize (s : String) : List STok :=
  let rec go (cs : List Char) (cur : List Char) (acc : List STok) : List STok :=
    let flush (acc : List STok) := if cur.isEmpty then acc else STok.at (String.ofList cur.reverse) :: acc
    match cs with
    | [] => (flush acc).reverse
    | '(' :: r => go r [] (STok.lp :: flush acc)
    | ')' :: r => go r [] (STok.rp :: flush acc)
    | ' ' :: r => go r [] (flush acc)
    | c :: r => go r (c :: cur) acc
  go s.toList [] []

/-- Parses one expression; returns it with the remaining tokens. -/
partial def parseOne : List STok → Option (Sexp × List STok)
  | STok.at s :: r => some (.atom s, r)
  | STok.lp :: r =>
    let rec items (ts : List STok) (acc : List Sexp) : Option (Sexp × List STok) :=
      match ts with
      | STok.rp :: r => some (.list acc.reverse, r)
      | [] => none
      | _ =>
        match parseOne ts with
        | some (x, r) => items r (x :: acc)
        | none => none
    items r []
  | _ => none

def parse (s : String) : Option Sexp :=
  match parseOne (tokenize s) with
  | some (x, []) => some x
  | _ => none

end Dm.Sexp

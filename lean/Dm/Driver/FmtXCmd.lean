import Dm.Model.FmtExpand
import Dm.Model.TyGen
import Dm.Driver.Sexp
import Dm.Driver.FmtCmd

/-
Driver commands for the Display-like / Debug expander models.
Request: `fx <sexp>` with
  (disp <Trait> <xs> <xc> <ws> (conv (<case> <hexname> <hexresult>)...) (tparams <hex>...) <item>)
  (dbg  <xs> <xc> <ws> (tparams <hex>...) <item>)
Answer: `ok body=<tokens> where=<tokens>` | `err`
-/
namespace Dm.FmtXCmd
open Dm.Fmt Dm.FmtX Dm.Sexp Dm.Wire

def dName (s : Sexp) : Option Name :=
  match s with
  | .atom a => (hexDecode a).map String.toList
  | _ => none

def dStr (s : Sexp) : Option String :=
  match s with
  | .atom a => hexDecode a
  | _ => none

def dOptName (s : Sexp) : Option (Option Name) :=
  match s with
  | .atom "-" => some none
  | .atom a => (hexDecode a).map fun x => some x.toList
  | _ => none

def dTrait (s : String) : Option Trait :=
  [Trait.display, .debug, .octal, .lowerHex, .upperHex, .pointer, .binary, .lowerExp, .upperExp].find?
    fun t => FmtCmd.showTrait t == s

def dCase (s : String) : Option Case :=
  match s with
  | "lower" => some .lower | "upper" => some .upper | "pascal" => some .pascal
  | "camel" => some .camel | "snake" => some .snake | "screamingSnake" => some .screamingSnake
  | "kebab" => some .kebab | "screamingKebab" => some .screamingKebab
  | _ => none

/-! #### type ASTs -/
open Dm.TyGen in
mutual
  partial def dTy : Sexp → Option TyGen.Ty
    | .atom "o" => some .opaque
    | .list (.atom "p" :: q :: segs) => do
      let q ← (match q with | .atom "-" => some none | q => (dTy q).map some)
      let segs ← segs.mapM dSeg
      pure (.path q segs)
    | .list [.atom "e", t] => (dTy t).map TyGen.Ty.elem
    | .list [.atom "fn", .list ins, out] => do
      let ins ← ins.mapM dTy
      let out ← (match out with | .atom "-" => some none | o => (dTy o).map some)
      pure (.bareFn ins out)
    | .list (.atom "t" :: es) => (es.mapM dTy).map TyGen.Ty.tuple
    | .list (.atom "dyn" :: bs) => do
      let bs ← bs.mapM fun b => match b with
        | .list (.atom "b" :: segs) => segs.mapM dSeg
        | _ => none
      pure (.traitObj bs)
    | _ => none
  partial def dSeg : Sexp → Option Seg
    | .list [.atom "s", i, args] => do
      let i ← dName i
      let args ← (match args with
        | .atom "n" => some SegArgs.none
        | .list (.atom "a" :: gs) => (gs.mapM dGArg).map SegArgs.angle
        | .list [.atom "pa", .list ins, out] => do
          let ins ← ins.mapM dTy
          let out ← (match out with | .atom "-" => some none | o => (dTy o).map some)
          pure (SegArgs.paren ins out)
        | _ => none)
      pure (.mk i args)
    | _ => none
  partial def dGArg : Sexp → Option GArg
    | .atom "o" => some .other
    | .list [.atom "ty", t] => (dTy t).map GArg.ty
    | .list [.atom "as", t] => (dTy t).map GArg.assocTy
    | _ => none
end

def dFmtAttr : Sexp → Option FmtAttr
  | .list [.atom "fmt", lit, emit, .list (.atom "args" :: args)] => do
    let lit ← dName lit
    let emit ← dStr emit
    let args ← args.mapM fun a => match a with
      | .list [.atom "a", al, id, toks] => do
        let al ← dOptName al
        let id ← dOptName id
        let toks ← dStr toks
        pure ({ alias := al, ident := id, toks := toks } : FArg)
      | _ => none
    pure { lit := lit, emit := emit, args := args }
  | _ => none

def dCAttr : Sexp → Option CAttr
  | .list (.atom "bound" :: ps) => (ps.mapM dStr).map CAttr.bound
  | .list [.atom "rename", .atom c] => (dCase c).map CAttr.rename
  | s => (dFmtAttr s).map CAttr.fmt

def dField (tps : List Name) : Sexp → Option FieldD
  | .list [.atom "f", name, tyToks, ty, dbg] => do
    let name ← dOptName name
    let tyToks ← dStr tyToks
    let ty ← dTy ty
    let dbg ← (match dbg with
      | .atom "none" => some DbgAttr.none
      | .atom "skip" => some DbgAttr.skip
      | s => (dFmtAttr s).map DbgAttr.fmt)
    pure { name := name, tyToks := tyToks, generic := Dm.TyGen.containsGenerics tps ty, dbg := dbg }
  | _ => none

def dFields (tps : List Name) : Sexp → Option FieldsD
  | .atom "unit" => some .unit
  | .list (.atom "unnamed" :: fs) => (fs.mapM (dField tps)).map FieldsD.unnamed
  | .list (.atom "named" :: fs) => (fs.mapM (dField tps)).map FieldsD.named
  | _ => none

abbrev VariantW := VariantD

inductive ItemW where
  | struct (name : Name) (wh : List String) (attrs : List CAttr) (fields : FieldsD)
  | enum (name : Name) (wh : List String) (attrs : List CAttr) (vs : List VariantW)
  | union (name : Name) (wh : List String) (attrs : List CAttr) (fields : FieldsD)

def dItem (tps : List Name) : Sexp → Option ItemW
  | .list [.atom k, name, .list (.atom "where" :: wh), .list (.atom "attrs" :: attrs), body] => do
    let name ← dName name
    let wh ← wh.mapM dStr
    let attrs ← attrs.mapM dCAttr
    match k with
    | "struct" => (dFields tps body).map (ItemW.struct name wh attrs)
    | "union" => (dFields tps body).map (ItemW.union name wh attrs)
    | "enum" =>
      match body with
      | .list (.atom "variants" :: vs) => do
        let vs ← vs.mapM fun v => match v with
          | .list [.atom "v", n, .list (.atom "attrs" :: as), fs] => do
            let n ← dName n
            let as ← as.mapM dCAttr
            let fs ← dFields tps fs
            pure ({ ident := n, attrs := as, fields := fs } : VariantW)
          | _ => none
        pure (.enum name wh attrs vs)
      | _ => none
    | _ => none
  | _ => none

/-! #### rendering (whitespace-free token text) -/

def P := "derive_more::core::fmt::"

def traitPlaceholder (tr : Trait) : String := String.ofList (defaultPlaceholder tr)

def rDerefs (ds : List Name) : String :=
  ",".intercalate (ds.map fun d => String.ofList d ++ "=*" ++ String.ofList d)

def rInner : Inner → String
  | .fmtArgs a ds => s!"&derive_more::core::format_args!({a.emit},{rDerefs ds})"
  | .name s => s!"\"{s}\""
  | .field tr f => s!"&derive_more::core::format_args!(\"{traitPlaceholder tr}\",{if wrappedFieldDeref tr then "*" else ""}{String.ofList f})"

def rBody : BodyD → String
  | .delegate tr e => s!"{P}{FmtCmd.showTrait tr}::fmt({e},__derive_more_f)"
  | .write a ds => s!"derive_more::core::write!(__derive_more_f,{a.emit},{rDerefs ds})"
  | .writeStr s => s!"__derive_more_f.write_str(\"{s}\")"
  | .wrapped i sh => "match" ++ rInner i ++ "{_variant=>" ++ rBody sh ++ "}"
  | .empty => ""

def rLets (fs : FieldsD) : String :=
  String.join (fs.list.zipIdx.map fun (f, i) =>
    match f.name with
    | some n => s!"let{String.ofList n}=&self.{String.ofList n};"
    | none => s!"let_{i}=&self.{i};")

def rMatcher (ident : Name) (fs : FieldsD) : String :=
  let names := fs.list.zipIdx.map fun (f, i) =>
    match f.name with | some n => String.ofList n | none => s!"_{i}"
  let inner := ",".intercalate names
  match fs with
  | .unit => s!"Self::{String.ofList ident}"
  | .unnamed _ => s!"Self::{String.ofList ident}({inner})"
  | .named _ => "Self::" ++ String.ofList ident ++ "{" ++ inner ++ "}"

def rBound (fs : FieldsD) : Bound → String
  | .field i tr =>
    match fs.list[i]? with
    | some f => s!"{f.tyToks}:{P}{FmtCmd.showTrait tr}"
    | none => "?"
  | .user t => t

def rWhere (existing : List String) (bs : List String) : String :=
  "where" ++ ",".intercalate (existing ++ bs)

def okAns (body wh : String) : String := s!"ok body={body} where={wh}"

def runDisplay (c : Ctx) (item : ItemW) : String :=
  match item with
  | .struct name wh attrs fields =>
    match mergeAttrs attrs with
    | .error _ => "err"
    | .ok cont =>
      let e : Expansion := { shared := none, attrs := cont, ident := name, fields := fields }
      match displayBody c e with
      | .error _ => "err"
      | .ok b =>
        okAns (rLets fields ++ rBody b) (rWhere wh ((displayBounds c e).map (rBound fields)))
  | .union _ wh attrs _ =>
    match mergeAttrs attrs with
    | .error _ => "err"
    | .ok cont =>
      match cont.fmt with
      | none => "err"
      | some a => okAns s!"derive_more::core::write!(__derive_more_f,{a.emit})" (rWhere wh cont.bounds)
  | .enum _ wh attrs vs =>
    match displayEnum c attrs vs with
    | .error _ => "err"
    | .ok rs =>
      let arms := String.join ((vs.zip rs).map fun (v, (b, _)) =>
        rMatcher v.ident v.fields ++ "=>{" ++ rBody b ++ "},")
      let bounds := (vs.zip rs).flatMap fun (v, (_, bs)) => bs.map (rBound v.fields)
      let body := if vs.isEmpty then "match*self{}" else "matchself{" ++ arms ++ "}"
      okAns body (rWhere wh bounds)

def rDbgCall (named : Bool) (out : String) : DbgCall → String
  | .value label b =>
    if named then s!"{P}DebugStruct::field({out},\"{label.getD ""}\",&{String.ofList b})"
    else s!"derive_more::__private::DebugTuple::field({out},&{String.ofList b})"
  | .formatted label a ds =>
    let fa := s!"&derive_more::core::format_args!({a.emit},{rDerefs ds})"
    if named then s!"{P}DebugStruct::field({out},\"{label.getD ""}\",{fa},)"
    else s!"derive_more::__private::DebugTuple::field({out},{fa},)"

def rDbgBody : DbgBody → String
  | .delegate tr e => s!"{P}{FmtCmd.showTrait tr}::fmt({e},__derive_more_f)"
  | .write a ds => s!"derive_more::core::write!(__derive_more_f,{a.emit},{rDerefs ds})"
  | .unit n => s!"{P}Formatter::write_str(__derive_more_f,\"{n}\",)"
  | .tuple n cs ex =>
    let out := cs.foldl (rDbgCall false) s!"&mutderive_more::__private::debug_tuple(__derive_more_f,\"{n}\",)"
    if ex then s!"derive_more::__private::DebugTuple::finish({out})"
    else s!"derive_more::__private::DebugTuple::finish_non_exhaustive({out})"
  | .struct n cs ex =>
    let out := cs.foldl (rDbgCall true) s!"&mut{P}Formatter::debug_struct(__derive_more_f,\"{n}\",)"
    if ex then s!"{P}DebugStruct::finish({out})"
    else s!"{P}DebugStruct::finish_non_exhaustive({out})"

def runDebug (cc : CharClasses) (item : ItemW) : String :=
  match item with
  | .union .. => "err"
  | .struct name wh attrs fields =>
    match dbgMerge attrs with
    | .error _ => "err"
    | .ok cont =>
      match dbgValidate cont.fmt fields with
      | .error _ => "err"
      | .ok _ =>
        okAns (rLets fields ++ rDbgBody (debugBody cc cont.fmt name fields))
          (rWhere wh ((debugBounds cc cont fields).map (rBound fields)))
  | .enum _ wh attrs vs =>
    match debugEnum cc attrs vs with
    | .error _ => "err"
    | .ok rs =>
      let arms := String.join ((vs.zip rs).map fun (v, (b, _)) =>
        rMatcher v.ident v.fields ++ "=>{" ++ rDbgBody b ++ "},")
      let bounds := (vs.zip rs).flatMap fun (v, (_, bs)) => bs.map (rBound v.fields)
      let body := if vs.isEmpty then "match*self{}" else "matchself{" ++ arms ++ "}"
      okAns body (rWhere wh bounds)

def cmdFx (line : String) : String :=
  match Sexp.parse line with
  | some (Sexp.list [.atom "disp", .atom tr, .atom xs, .atom xc, .atom ws,
      .list (.atom "conv" :: convs), .list (.atom "tparams" :: tps), item]) =>
    (do
      let tr ← dTrait tr
      let xs ← FmtCmd.decodeChars xs
      let xc ← FmtCmd.decodeChars xc
      let ws ← FmtCmd.decodeChars ws
      let convs ← convs.mapM fun (c : Sexp) => match c with
        | Sexp.list [.atom cs, n, r] => do
          let cs ← dCase cs
          let n ← dName n
          let r ← dStr r
          pure ((cs, n, r) : Case × Name × String)
        | _ => none
      let tps ← tps.mapM dName
      let item ← dItem tps item
      let conv : Case → Name → String := fun cs n =>
        match convs.find? (fun (t : Case × Name × String) => t.1 = cs ∧ t.2.1 = n) with
        | some t => t.2.2
        | none => "?unconverted?"
      pure (runDisplay { cc := FmtCmd.mkClasses xs xc ws, tr := tr, conv := conv } item)).getD "bad-op"
  | some (Sexp.list [.atom "dbg", .atom xs, .atom xc, .atom ws, .list (.atom "tparams" :: tps), item]) =>
    (do
      let xs ← FmtCmd.decodeChars xs
      let xc ← FmtCmd.decodeChars xc
      let ws ← FmtCmd.decodeChars ws
      let tps ← tps.mapM dName
      let item ← dItem tps item
      pure (runDebug (FmtCmd.mkClasses xs xc ws) item)).getD "bad-op"
  | _ => "bad-op"

end Dm.FmtXCmd

import Dm.Props.C03
#print axioms Dm.Props.C03.text_yields_no_placeholders
#print axioms Dm.Props.C03.implicit_counter_is_std
#print axioms Dm.Props.C03.formats_agree_nospec_partial
#print axioms Dm.Props.C03.placeholders_agree_nospec_partial
#print axioms Dm.Props.C03.asciiSane
#print axioms Dm.Props.C03.formats_agree
#print axioms Dm.Props.C03.placeholders_agree
#print axioms Dm.Props.C03.accepted_literals_are_derivations
#print axioms Dm.Props.C03.asciiSane2
#print axioms Dm.Fmt.formatSpec_render

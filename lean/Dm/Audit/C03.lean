import Dm.Props.C03
#print axioms Dm.Props.C03.text_yields_no_placeholders
#print axioms Dm.Props.C03.implicit_counter_is_std

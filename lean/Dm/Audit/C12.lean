import Dm.Props.C12
#print axioms Dm.Props.C12.const_is_discriminant
#print axioms Dm.Props.C12.try_from_iff
#print axioms Dm.Props.C12.cast_roundtrip
#print axioms Dm.Props.C12.no_variant_is_err
#print axioms Dm.Props.C12.repr_single_attr
#print axioms Dm.Props.C12.constsFrom_eq
#print axioms Dm.Props.C12.tryFromAux_spec
#print axioms Dm.Props.C12.repr_none
#print axioms Dm.Props.C12.wrap_of_fits
#print axioms Dm.Props.C12.wrap_add_wrap
#print axioms Dm.Props.C12.constW_exact
#print axioms Dm.Props.C12.constsFromW_eq
#print axioms Dm.Props.C12.consts_in_repr_are_discriminants
#print axioms Dm.Props.C12.i8_far_variant_witness
#print axioms Dm.Props.C12.source_repr_ints_are_the_model
#print axioms Dm.Props.C12.int_hint_found_anywhere

import Dm.Props.C08
#print axioms Dm.Props.C08.from_ith
#print axioms Dm.Props.C08.forward_one_from_per_field
#print axioms Dm.Props.C08.impl_count
#print axioms Dm.Props.C08.unannotated_variant_skipped
#print axioms Dm.Props.C08.unit_variant_skipped
#print axioms Dm.Props.C08.into_fields_in_order
#print axioms Dm.Props.C08.intoKind_count
#print axioms Dm.Props.C08.into_from_id
#print axioms Dm.Props.C08.from_into_id
#print axioms Dm.Props.C08.new_ith
#print axioms Dm.Props.C08.direct_inits_eval
#print axioms Dm.Props.C08.mapM_length
#print axioms Dm.Props.C08.mapM_forall
#print axioms Dm.Props.C08.intoKind_fields
#print axioms Dm.Props.C08.mapM_getElem
#print axioms Dm.Props.C08.explicit_variant_anywhere_switches_off

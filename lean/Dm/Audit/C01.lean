import Dm.Props.C01
#print axioms Dm.Props.C01.lifetimes_first_impl
#print axioms Dm.Props.C01.self_args_exact
#print axioms Dm.Props.C01.args_declared_plain
#print axioms Dm.Props.C01.args_declared_bound
#print axioms Dm.Props.C01.args_declared_extra_param
#print axioms Dm.Props.C01.args_declared_extra_type_param
#print axioms Dm.Props.C01.args_declared_where
#print axioms Dm.Props.C01.extra_type_param_perm
#print axioms Dm.Props.C01.fresh_param_unique
#print axioms Dm.Props.C01.where_predicates_kept
#print axioms Dm.Props.C01.added_bounds_in_scope
#print axioms Dm.Props.C01.lifetimesFirst_append
#print axioms Dm.Props.C01.mem_implParams_of_mem
#print axioms Dm.Props.C01.args_declared_of_kept
#print axioms Dm.Props.C01.impl_params_have_no_defaults

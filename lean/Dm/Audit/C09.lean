import Dm.Props.C09
#print axioms Dm.Props.C09.source_is_documented
#print axioms Dm.Props.C09.returned_field_is_eligible
#print axioms Dm.Props.C09.two_explicit_sources_is_error
#print axioms Dm.Props.C09.ignored_variant_is_none
#print axioms Dm.Props.C09.enabled_variant_is_documented
#print axioms Dm.Props.C09.ignored_sibling_makes_no_sole_field

import Dm.Props.C17
import Dm.Props.C17Typed
import Dm.Props.C17Fmt
#print axioms Dm.Props.C17.order_independent
#print axioms Dm.Props.C17.unknown_rejected
#print axioms Dm.Props.C17.repeated_rejected
#print axioms Dm.Props.C17.contradiction_rejected
#print axioms Dm.Props.C17.attribute_forms_rejected
#print axioms Dm.Props.C17.many_type_lists
#print axioms Dm.Props.C17.types_one_attribute_or_many
#print axioms Dm.Props.C17.trailing_comma
#print axioms Dm.Props.C17.skip_ignore_synonyms
#print axioms Dm.Props.C17.attribute_order_free
#print axioms Dm.Props.C17.two_attributes_only_type_lists
#print axioms Dm.Props.C17.accepted_arguments_are_types
#print axioms Dm.Props.C17.from_legacy_rejected
#print axioms Dm.Props.C17.try_from_accepts_exactly
#print axioms Dm.Props.C17.into_one_attribute_or_many
#print axioms Dm.Props.C17.into_many_attributes_or_one
#print axioms Dm.Props.C17.into_trailing_comma
#print axioms Dm.Props.C17.into_attribute_order_free
#print axioms Dm.Props.C17.into_struct_two_attributes
#print axioms Dm.Props.C17.into_accepted_arguments
#print axioms Dm.Props.C17.into_field_skip
#print axioms Dm.TypedAttr.legacy_rejected_anyway
#print axioms Dm.Props.C17.bound_bounds_synonyms
#print axioms Dm.Props.C17.bounds_one_attribute_or_many
#print axioms Dm.Props.C17.fmt_attribute_order_free
#print axioms Dm.Props.C17.second_format_or_rename_rejected
#print axioms Dm.Props.C17.unreadable_attribute_rejected
#print axioms Dm.Props.C17.unreadable_examples
#print axioms Dm.Props.C17.debug_enum_positions
#print axioms Dm.FmtContainer.parseAll_some_iff
#print axioms Dm.Props.C17.debug_field_attributes

import Dm.Props.C17
#print axioms Dm.Props.C17.order_independent
#print axioms Dm.Props.C17.unknown_rejected
#print axioms Dm.Props.C17.repeated_rejected
#print axioms Dm.Props.C17.contradiction_rejected
#print axioms Dm.Props.C17.attribute_forms_rejected

import Dm.Props.C06
#print axioms Dm.Props.C06.pad_append
#print axioms Dm.Props.C06.tuple_eq_std_flat
#print axioms Dm.Props.C06.tuple_eq_std_pretty
#print axioms Dm.Props.C06.tuple_eq_std_plain_pretty
#print axioms Dm.Props.C06.tuple_eq_std_counterexample
#print axioms Dm.Props.C06.calls_follow_fields
#print axioms Dm.Props.C06.padded_loop_is_pad
#print axioms Dm.Props.C06.padded_chunking_independent
#print axioms Dm.Props.C06.tuple_code_eq_model
#print axioms Dm.Props.C06.nested_plain_val
#print axioms Dm.Props.C06.nested_plain_vals
#print axioms Dm.Props.C06.nested_eq_std
#print axioms Dm.Props.C06.nested_insens_val
#print axioms Dm.Props.C06.nested_insens_vals
#print axioms Dm.Props.C06.nested_eq_std_all_options

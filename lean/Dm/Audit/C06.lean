import Dm.Props.C06
#print axioms Dm.Props.C06.pad_append
#print axioms Dm.Props.C06.tuple_eq_std_flat
#print axioms Dm.Props.C06.tuple_eq_std_pretty
#print axioms Dm.Props.C06.tuple_eq_std_plain_pretty
#print axioms Dm.Props.C06.tuple_eq_std_counterexample
#print axioms Dm.Props.C06.calls_follow_fields

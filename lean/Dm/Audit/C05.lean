import Dm.Props.C05
#print axioms Dm.Props.C05.referTo_iff
#print axioms Dm.Props.C05.transparent_iff_bare
#print axioms Dm.Props.C05.nonzero_index_never_transparent
#print axioms Dm.Props.C05.modifiers_never_transparent
#print axioms Dm.Props.C05.not_single_placeholder_never_transparent
#print axioms Dm.Props.C05.passthrough
#print axioms Dm.Props.C05.inert
#print axioms Dm.Props.C05.attr_body_cases
#print axioms Dm.Props.C05.no_attr_single_field
#print axioms Dm.Props.C05.argument_expression_is_referenced

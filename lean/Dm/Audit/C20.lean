import Dm.Props.C20
#print axioms Dm.Props.C20.implies_sound
#print axioms Dm.Props.C20.all_refs_hold
#print axioms Dm.Props.C20.gating_closed
#print axioms Dm.Props.C20.cargo_tables

import Dm.Props.C19
#print axioms Dm.Props.C19.seed_and_history_free
#print axioms Dm.Props.C19.unfixed_site_depends
#print axioms Dm.Props.C19.global_state_depends
#print axioms Dm.Props.C19.all_sites_fixed
#print axioms Dm.Props.C19.no_global_state
#print axioms Dm.Props.C19.expansion_deterministic

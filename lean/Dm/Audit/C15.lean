import Dm.Props.C15
#print axioms Dm.Props.C15.resolveHead_independent
#print axioms Dm.Props.C15.resolve_independent
#print axioms Dm.Props.C15.escaping_path_depends
#print axioms Dm.Props.C15.all_templates_closed
#print axioms Dm.Props.C15.expansions_scope_independent
#print axioms Dm.Props.C15.escaping_extern_depends

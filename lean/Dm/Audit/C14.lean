import Dm.Props.C14
#print axioms Dm.Props.C14.single_enabled_unique
#print axioms Dm.Props.C14.single_field_selected
#print axioms Dm.Props.C14.direct_is_same_address
#print axioms Dm.Props.C14.forward_is_fields
#print axioms Dm.Props.C14.index_forwards
#print axioms Dm.Props.C14.iter_forms_same_field
#print axioms Dm.Props.C14.asref_listed_field_type_is_identity
#print axioms Dm.Props.C14.asref_other_type_forwards
#print axioms Dm.Props.C14.asref_plain_and_forward
#print axioms Dm.Props.C14.field_setting_overrides_inherited
#print axioms Dm.Props.C14.unset_inherits
#print axioms Dm.Props.C14.not_forward_field_is_direct

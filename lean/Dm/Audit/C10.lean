import Dm.Props.C10
#print axioms Dm.Props.C10.add_struct
#print axioms Dm.Props.C10.mul_scalar
#print axioms Dm.Props.C10.unary_struct
#print axioms Dm.Props.C10.assign_matches_binary
#print axioms Dm.Props.C10.sum_is_fieldwise_fold
#print axioms Dm.Props.C10.add_enum_same_variant
#print axioms Dm.Props.C10.add_enum_unit_variant
#print axioms Dm.Props.C10.add_enum_different_variants
#print axioms Dm.Props.C10.map_range_getD
#print axioms Dm.Props.C10.eval_variant_arms_same
#print axioms Dm.Props.C10.eval_variant_arms_unit
#print axioms Dm.Props.C10.eval_variant_arms_diff
#print axioms Dm.Props.C10.not_enum_maps_fields
#print axioms Dm.Props.C10.not_enum_unit_variant
#print axioms Dm.Props.C10.not_enum_result_iff_unit_variant

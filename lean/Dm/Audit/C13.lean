import Dm.Props.C13
#print axioms Dm.Props.C13.enum_parse_iff
#print axioms Dm.Props.C13.own_name_roundtrip
#print axioms Dm.Props.C13.rejected_otherwise
#print axioms Dm.Props.C13.newtype_delegates
#print axioms Dm.Props.C13.accepts_unique
#print axioms Dm.Props.C13.arm_matches_iff
#print axioms Dm.Props.C13.find_unique
#print axioms Dm.Props.C13.same_lowering_suffices
#print axioms Dm.Props.C13.different_lowering_breaks_roundtrip

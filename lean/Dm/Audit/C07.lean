import Dm.Props.C07
#print axioms Dm.Props.C07.wraps_every_variant
#print axioms Dm.Props.C07.bare_variant_is_identity
#print axioms Dm.Props.C07.default_only_for_unattributed
#print axioms Dm.Props.C07.variant_spec_rejected
#print axioms Dm.Props.C07.debug_enum_attr_rejected
#print axioms Dm.Props.C07.sharedInfo_wrapping
#print axioms Dm.Props.C07.wrapped_pointer_field_prints_held_pointer
#print axioms Dm.Props.C07.wrapped_field_deref_iff_pointer
#print axioms Dm.Props.C07.default_placeholder_is_the_derived_trait
#print axioms Dm.Props.C07.source_default_placeholders_are_the_model
#print axioms Dm.Props.C07.source_default_placeholders_denote_their_trait
#print axioms Dm.Props.C07.source_attribute_names_distinct

import Dm.Props.C02
#print axioms Dm.Props.C02.write_passes_attribute_verbatim
#print axioms Dm.Props.C02.deref_args_iff
#print axioms Dm.Props.C02.unit_prints_name
#print axioms Dm.Props.C02.single_field_prints_field
#print axioms Dm.Props.C02.named_placeholder_prints_field_itself
#print axioms Dm.Props.C02.attribute_body_is_write_or_delegate

import Dm.Props.C16
#print axioms Dm.Props.C16.expr_reemitted_verbatim
#print axioms Dm.Props.C16.ident_iff_single_identifier
#print axioms Dm.Props.C16.arg_reemitted_verbatim
#print axioms Dm.Props.C16.plain_tokens_taken_whole
#print axioms Dm.Props.C16.balancedPair_bal
#print axioms Dm.Props.C16.turbofish_taken_whole
#print axioms Dm.Props.C16.qualified_path_taken_whole
#print axioms Dm.Props.C16.closure_params_taken_whole
#print axioms Dm.Props.C16.binary_or_swallows_comma
#print axioms Dm.Props.C16.cast_to_generic_type_is_split
#print axioms Dm.Props.C16.lt_and_gt_global_path_is_one_argument
#print axioms Dm.Props.C16.exprStep_plain
#print axioms Dm.Props.C16.isPunct_lt_not_gt
#print axioms Dm.Props.C16.balancedLoop_bal

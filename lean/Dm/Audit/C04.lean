import Dm.Props.C04
#print axioms Dm.Props.C04.boundedTypes_iff
#print axioms Dm.Props.C04.own_attr_bounds_sufficient
#print axioms Dm.Props.C04.inferred_bounds_only_on_generic_fields
#print axioms Dm.Props.C04.implicit_bounds
#print axioms Dm.Props.C04.containsGenerics_iff_mentions
#print axioms Dm.Props.C04.no_params_no_generics
#print axioms Dm.Props.C04.user_bounds_always_kept

import Dm.Props.C11
#print axioms Dm.Props.C11.is_iff
#print axioms Dm.Props.C11.is_partition
#print axioms Dm.Props.C11.unwrap_iff
#print axioms Dm.Props.C11.try_unwrap_err_returns_input
#print axioms Dm.Props.C11.try_unwrap_ok
#print axioms Dm.Props.C11.try_into_exact
#print axioms Dm.Props.C11.groups_partition
#print axioms Dm.Props.C11.groups_order_independent
#print axioms Dm.Props.C11.unattributed_variant_enabled
#print axioms Dm.Props.C11.ignore_first_keeps_unattributed

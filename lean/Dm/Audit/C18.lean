import Dm.Props.C18
#print axioms Dm.Props.C18.char_wb
#print axioms Dm.Props.C18.check_char_wb
#print axioms Dm.Props.C18.any_char_wb
#print axioms Dm.Props.C18.str_wb
#print axioms Dm.Props.C18.one_of_wb
#print axioms Dm.Props.C18.take_while0_total
#print axioms Dm.Props.C18.take_while1_spec
#print axioms Dm.Props.C18.take_until1_spec
#print axioms Dm.Props.C18.no_unaccounted_site
#print axioms Dm.Props.C18.error_positions_in_bounds
#print axioms Dm.Props.C18.error_all_index_in_bounds
#print axioms Dm.Props.C18.inferSource_in_bounds

/-
Round trip for the spec-less fragment of the std grammar: printing a canonical derivation whose
placeholders carry no `:format_spec` and parsing it back with derive_more's parser gives exactly the
formats of the derivation — for every derivation, of any length.
-/
import Dm.Lemmas.FmtParse

namespace Dm.Fmt

/-- What the proof needs from the character tables (true of `unicode-xid` and `char::is_whitespace`;
checked on every run for the tables the implementation uses by the `xidtable` comparison of C03). -/
structure Sane (cc : CharClasses) : Prop where
  digit_plain : ∀ c, isDigit c = true → cc.isStart c = false ∧ c ≠ '_' ∧ cc.isWs c = false
  ws_plain : ∀ c, cc.isWs c = true →
    cc.isCont c = false ∧ cc.isStart c = false ∧ isDigit c = false ∧ c ≠ '_' ∧ c ≠ ':' ∧ c ≠ '{' ∧ c ≠ '}'
  rbrace_plain : cc.isCont '}' = false ∧ cc.isStart '}' = false ∧ cc.isWs '}' = false
  lbrace_plain : cc.isCont '{' = false ∧ cc.isStart '{' = false ∧ cc.isWs '{' = false
  start_plain : ∀ c, cc.isStart c = true → c ≠ '{' ∧ c ≠ '}'

theorem takeWhile_append_stop {p : Char → Bool} (l r : List Char) (hl : ∀ c ∈ l, p c = true)
    (hr : ∀ h t, r = h :: t → p h = false) : (l ++ r).takeWhile p = l ∧ (l ++ r).dropWhile p = r := by
  induction l with
  | nil =>
    cases r with
    | nil => simp
    | cons h t => have := hr h t rfl; simp [List.takeWhile, List.dropWhile, this]
  | cons a l ih =>
    have ha : p a = true := hl a (by simp)
    have := ih (fun c hc => hl c (by simp [hc]))
    simp [List.takeWhile, List.dropWhile, ha, this.1, this.2]

/-- What can follow an argument in a spec-less placeholder: whitespace then `}`. -/
def Closer (cc : CharClasses) (r : List Char) : Prop :=
  ∃ ws tail, r = ws ++ '}' :: tail ∧ ∀ c ∈ ws, cc.isWs c = true

theorem Closer.head {cc : CharClasses} (hs : Sane cc) {r : List Char} (h : Closer cc r) :
    ∃ x t, r = x :: t ∧ cc.isCont x = false ∧ cc.isStart x = false ∧ isDigit x = false ∧ x ≠ '_' ∧ x ≠ ':' ∧ x ≠ '{' := by
  obtain ⟨ws, tail, rfl, hws⟩ := h
  cases ws with
  | nil =>
    refine ⟨'}', tail, rfl, hs.rbrace_plain.1, hs.rbrace_plain.2.1, by decide, by decide, by decide, by decide⟩
  | cons w ws =>
    have := hs.ws_plain w (hws w (by simp))
    exact ⟨w, ws ++ '}' :: tail, rfl, this.1, this.2.1, this.2.2.1, this.2.2.2.1, this.2.2.2.2.1, this.2.2.2.2.2.1⟩

theorem identifier_render (cc : CharClasses) (hs : Sane cc) (cs r : List Char) (hi : IsIdent cc cs) (hr : Closer cc r) :
    identifier cc (cs ++ r) = some (r, cs) := by
  obtain ⟨x, t, rfl, hx, _⟩ := hr.head hs
  cases cs with
  | nil => exact hi.elim
  | cons c cs =>
    have stop := fun (hall : ∀ d ∈ cs, cc.isCont d = true) =>
      takeWhile_append_stop (p := cc.isCont) cs (x :: t) hall (by intro h t' e; cases e; exact hx)
    rcases hi with ⟨hst, hall⟩ | ⟨rfl, hne, hall⟩
    · simp [identifier, hst, (stop hall).1, (stop hall).2]
    · by_cases hst : cc.isStart '_' = true
      · simp [identifier, hst, (stop hall).1, (stop hall).2]
      · simp only [List.cons_append, identifier, hst, Bool.false_eq_true, if_false, if_true]
        rw [(stop hall).1, (stop hall).2]
        cases cs with
        | nil => exact (hne rfl).elim
        | cons d ds => rfl

theorem identifier_none_of_head (cc : CharClasses) (x : Char) (t : List Char) (h1 : cc.isStart x = false) (h2 : x ≠ '_') :
    identifier cc (x :: t) = none := by
  simp [identifier, h1, h2]

theorem integer_render (cc : CharClasses) (hs : Sane cc) (ds r : List Char) (hi : IsIndex ds) (hr : Closer cc r) :
    integer (ds ++ r) = some (r, digitsVal ds) := by
  obtain ⟨x, t, rfl, _, _, hx, _⟩ := hr.head hs
  have stop := takeWhile_append_stop (p := isDigit) ds (x :: t) hi.2.1 (by intro h t' e; cases e; exact hx)
  unfold integer
  rw [stop.1, stop.2]
  cases ds with
  | nil => exact (hi.1 rfl).elim
  | cons d ds => simp [hi.2.2]

theorem argument_render (cc : CharClasses) (hs : Sane cc) (a : ArgA) (r : List Char) (ha : a.WF cc) (hr : Closer cc r) :
    argument cc (a.render ++ r) = some (r, a.toArg) := by
  cases a with
  | name cs => simp [argument, ArgA.render, identifier_render cc hs cs r ha hr, ArgA.toArg]
  | idx ds =>
    have hi : IsIndex ds := ha
    cases ds with
    | nil => exact (hi.1 rfl).elim
    | cons d ds =>
      have hd := hs.digit_plain d (hi.2.1 d (by simp))
      have hnone : identifier cc ((d :: ds) ++ r) = none := identifier_none_of_head cc d (ds ++ r) hd.1 hd.2.1
      simp only [argument, ArgA.render, hnone]
      rw [integer_render cc hs (d :: ds) r hi hr]
      rfl

theorem argument_none_of_closer (cc : CharClasses) (hs : Sane cc) (r : List Char) (hr : Closer cc r) :
    argument cc r = none := by
  obtain ⟨x, t, rfl, _, hst, hd, hu, _⟩ := hr.head hs
  have h1 : identifier cc (x :: t) = none := identifier_none_of_head cc x t hst hu
  have h2 : integer (x :: t) = none := by simp [integer, List.takeWhile, hd]
  simp [argument, h1, h2]

theorem skipWs_closer (cc : CharClasses) (hs : Sane cc) (ws tail : List Char) (hws : ∀ c ∈ ws, cc.isWs c = true) :
    skipWs cc (ws ++ '}' :: tail) = '}' :: tail := by
  unfold skipWs
  exact (takeWhile_append_stop (p := cc.isWs) ws ('}' :: tail) hws (by intro h t e; cases e; exact hs.rbrace_plain.2.2)).2

/-- A placeholder without format spec parses back to its own format, whatever follows. -/
theorem format_render_nospec (cc : CharClasses) (hs : Sane cc) (p : PhA) (hp : p.WF cc) (hn : p.spec = none) (tail : List Char) :
    format cc (p.render ++ tail) = some (tail, p.toFormat) := by
  have hcl : Closer cc (p.ws ++ '}' :: tail) := ⟨p.ws, tail, rfl, hp.ws⟩
  obtain ⟨x, t, hxt, _, _, _, _, hcolon, _⟩ := hcl.head hs
  have hskip := skipWs_closer cc hs p.ws tail hp.ws
  cases ha : p.arg with
  | none =>
    have hrender : p.render ++ tail = '{' :: (p.ws ++ '}' :: tail) := by
      simp [PhA.render, ha, hn, optRender]
    rw [hrender]
    simp only [format, argument_none_of_closer cc hs _ hcl]
    rw [hxt] at hskip ⊢
    split
    · next heq =>
      split at heq
      · next r e => cases e; exact (hcolon rfl).elim
      · cases heq
    · next s2 spec heq =>
      split at heq
      · next r e => cases e; exact (hcolon rfl).elim
      · cases heq
        simp only [hskip, PhA.toFormat, ha, hn, Option.map]
  | some a =>
    have hrender : p.render ++ tail = '{' :: (a.render ++ (p.ws ++ '}' :: tail)) := by
      simp [PhA.render, ha, hn, optRender]
    rw [hrender]
    simp only [format, argument_render cc hs a _ (hp.arg a ha) hcl]
    rw [hxt] at hskip ⊢
    split
    · next heq =>
      split at heq
      · next r e => cases e; exact (hcolon rfl).elim
      · cases heq
    · next s2 spec heq =>
      split at heq
      · next r e => cases e; exact (hcolon rfl).elim
      · cases heq
        simp only [hskip, PhA.toFormat, ha, hn, Option.map]

end Dm.Fmt

namespace Dm.Fmt

/-- A piece that starts with a brace when printed (everything but text). -/
def Piece.isBraceLed : Piece → Bool
  | .text _ => false
  | _ => true

/-- Canonical derivations: no two adjacent text pieces (they would be one `text`). -/
def Canonical : List Piece → Prop
  | [] => True
  | [_] => True
  | .text _ :: .text _ :: _ => False
  | _ :: q :: rest => Canonical (q :: rest)

def NoSpec : Piece → Prop
  | .ph p => p.spec = none
  | _ => True

theorem Canonical.tail {p : Piece} {ps : List Piece} (h : Canonical (p :: ps)) : Canonical ps := by
  cases ps with
  | nil => trivial
  | cons q rest =>
    cases p <;> cases q <;> simp_all [Canonical]

/-- the printed form of a brace-led piece starts with a brace, and is never `{{`/`}}` for a placeholder -/
theorem render_head_brace (ps : List Piece) (p : Piece) (h : p.isBraceLed = true) :
    ∃ b t, renderAll (p :: ps) = b :: t ∧ isBrace b = true := by
  cases p with
  | text cs => simp [Piece.isBraceLed] at h
  | lbrace => exact ⟨'{', '{' :: renderAll ps, by simp [renderAll, Piece.render], by decide⟩
  | rbrace => exact ⟨'}', '}' :: renderAll ps, by simp [renderAll, Piece.render], by decide⟩
  | ph q => exact ⟨'{', _, by simp [renderAll, Piece.render, PhA.render]; rfl, by decide⟩

theorem text_stops (cs tail : List Char) (hne : cs ≠ []) (hcs : ∀ c ∈ cs, isBrace c = false)
    (ht : ∀ h t, tail = h :: t → isBrace h = true) :
    text (cs ++ tail) = some (tail, cs) := by
  have stop := takeWhile_append_stop (p := fun c => !isBrace c) cs tail
    (by intro c hc; simp [hcs c hc]) (by intro h t e; simp [ht h t e])
  unfold text
  rw [stop.1, stop.2]
  cases cs with
  | nil => exact (hne rfl).elim
  | cons c cs => rfl

/-- `maybe_format` on a printed placeholder without spec. -/
theorem maybeFormat_ph (cc : CharClasses) (hs : Sane cc) (p : PhA) (hp : p.WF cc) (hn : p.spec = none) (tail : List Char) :
    maybeFormat cc (p.render ++ tail) = some (tail, some p.toFormat) := by
  have hf := format_render_nospec cc hs p hp hn tail
  -- the second character is not `{`
  have hcl : Closer cc (p.ws ++ '}' :: tail) := ⟨p.ws, tail, rfl, hp.ws⟩
  have hshape : ∃ y rest, p.render ++ tail = '{' :: y :: rest ∧ y ≠ '{' := by
    cases ha : p.arg with
    | none =>
      obtain ⟨x, t, hxt, _, _, _, _, _, hb⟩ := hcl.head hs
      exact ⟨x, t, by simp [PhA.render, ha, hn, optRender, hxt], hb⟩
    | some a =>
      cases a with
      | idx ds =>
        have hi : IsIndex ds := hp.arg _ ha
        cases ds with
        | nil => exact (hi.1 rfl).elim
        | cons d ds =>
          refine ⟨d, ds ++ (p.ws ++ '}' :: tail), by simp [PhA.render, ha, hn, optRender, ArgA.render], ?_⟩
          intro e; subst e
          have := hi.2.1 '{' (by simp)
          simp [isDigit] at this
      | name cs =>
        have hi : IsIdent cc cs := hp.arg _ ha
        cases cs with
        | nil => exact hi.elim
        | cons c cs =>
          refine ⟨c, cs ++ (p.ws ++ '}' :: tail), by simp [PhA.render, ha, hn, optRender, ArgA.render], ?_⟩
          rcases hi with ⟨hst, _⟩ | ⟨rfl, _⟩
          · exact (hs.start_plain c hst).1
          · decide
  obtain ⟨y, rest, hsh, hy⟩ := hshape
  rw [hsh] at hf ⊢
  unfold maybeFormat
  split
  · next r e => cases e; exact (hy rfl).elim
  · next r e => cases e
  · rw [hf]

/-- The loop of `format_string` on a printed canonical spec-less derivation returns its formats and
consumes everything, with any fuel above the length. -/
theorem formatLoop_render (cc : CharClasses) (hs : Sane cc) :
    ∀ (ps : List Piece) (fuel : Nat), (renderAll ps).length < fuel → Canonical ps →
      (∀ p ∈ ps, p.WF cc ∧ NoSpec p) → formatLoop cc fuel (renderAll ps) = (formatsOf ps, []) := by
  intro ps
  induction ps with
  | nil =>
    intro fuel _ _ _
    cases fuel with
    | zero => rfl
    | succ f => simp [renderAll, formatLoop, maybeFormat_nil, text_nil, formatsOf]
  | cons p ps ih =>
    intro fuel hfuel hcan hwf
    have hp := hwf p (by simp)
    have hrest : ∀ q ∈ ps, q.WF cc ∧ NoSpec q := fun q hq => hwf q (by simp [hq])
    have hcons : renderAll (p :: ps) = p.render ++ renderAll ps := by simp [renderAll]
    cases fuel with
    | zero => omega
    | succ f =>
      rw [hcons] at hfuel ⊢
      have hlen : (renderAll ps).length < f ∨ p.render = [] := by
        rw [List.length_append] at hfuel
        by_cases h0 : p.render = []
        · exact Or.inr h0
        · have : 0 < p.render.length := List.length_pos_iff.mpr h0
          exact Or.inl (by omega)
      cases p with
      | lbrace =>
        have hl : (renderAll ps).length < f := by
          rcases hlen with h | h
          · exact h
          · simp [Piece.render] at h
        simp only [Piece.render, List.cons_append, List.nil_append, formatLoop, maybeFormat]
        rw [ih f hl hcan.tail hrest]
        simp [formatsOf]
      | rbrace =>
        have hl : (renderAll ps).length < f := by
          rcases hlen with h | h
          · exact h
          · simp [Piece.render] at h
        simp only [Piece.render, List.cons_append, List.nil_append, formatLoop, maybeFormat]
        rw [ih f hl hcan.tail hrest]
        simp [formatsOf]
      | ph q =>
        have hl : (renderAll ps).length < f := by
          rcases hlen with h | h
          · exact h
          · simp [Piece.render, PhA.render] at h
        have hq : q.WF cc := hp.1
        have hn : q.spec = none := hp.2
        simp only [Piece.render, formatLoop]
        rw [maybeFormat_ph cc hs q hq hn (renderAll ps)]
        simp only
        rw [ih f hl hcan.tail hrest]
        simp [formatsOf]
      | text cs =>
        have hcs : cs ≠ [] ∧ ∀ c ∈ cs, isBrace c = false := hp.1
        have hl : (renderAll ps).length < f := by
          rcases hlen with h | h
          · exact h
          · exact (hcs.1 (by simpa [Piece.render] using h)).elim
        -- what follows a text piece is brace-led or the end
        have hnext : ∀ h t, renderAll ps = h :: t → isBrace h = true := by
          intro h t e
          cases ps with
          | nil => simp [renderAll] at e
          | cons q qs =>
            have hled : q.isBraceLed = true := by
              cases q with
              | text ds => simp [Canonical] at hcan
              | _ => rfl
            obtain ⟨b, t', hb, hbr⟩ := render_head_brace qs q hled
            rw [hb] at e; cases e; exact hbr
        have hmf : maybeFormat cc (cs ++ renderAll ps) = none := by
          cases cs with
          | nil => exact (hcs.1 rfl).elim
          | cons c cs' =>
            have hc : isBrace c = false := hcs.2 c (by simp)
            have hc1 : c ≠ '{' := by intro e; subst e; simp [isBrace] at hc
            have hc2 : c ≠ '}' := by intro e; subst e; simp [isBrace] at hc
            unfold maybeFormat
            split
            · next r e => exact (hc1 (List.cons.inj e).1).elim
            · next r e => exact (hc2 (List.cons.inj e).1).elim
            · have : format cc ((c :: cs') ++ renderAll ps) = none := by
                unfold format
                split
                · next s0 e => exact (hc1 (List.cons.inj e).1).elim
                · rfl
              rw [this]
        simp only [Piece.render, formatLoop, hmf, text_stops cs (renderAll ps) hcs.1 hcs.2 hnext]
        rw [ih f hl hcan.tail hrest]
        simp [formatsOf]

end Dm.Fmt

/-
Helper lemmas about the literal-parser model.
-/
import Dm.Model.StdFmt

namespace Dm.Fmt

theorem takeWhile_all {p : Char → Bool} {l : List Char} (h : ∀ c ∈ l, p c = true) :
    l.takeWhile p = l := by
  induction l with
  | nil => rfl
  | cons a t ih =>
    have ha : p a = true := h a (by simp)
    simp [List.takeWhile, ha, ih (fun c hc => h c (by simp [hc]))]

theorem dropWhile_all {p : Char → Bool} {l : List Char} (h : ∀ c ∈ l, p c = true) :
    l.dropWhile p = [] := by
  induction l with
  | nil => rfl
  | cons a t ih =>
    have ha : p a = true := h a (by simp)
    simp [List.dropWhile, ha, ih (fun c hc => h c (by simp [hc]))]

theorem format_nil (cc : CharClasses) : format cc [] = none := rfl
theorem maybeFormat_nil (cc : CharClasses) : maybeFormat cc [] = none := rfl
theorem text_nil : text [] = none := rfl

theorem formatString_nil (cc : CharClasses) : formatString cc [] = some [] := by
  simp [formatString, text_nil, formatLoop, maybeFormat_nil]

theorem parseFmtString_text (cc : CharClasses) (s : List Char)
    (h : ∀ c ∈ s, isBrace c = false) : parseFmtString cc s = [] := by
  cases s with
  | nil => simp [parseFmtString, formatString_nil, placeholdersFrom]
  | cons a t =>
    have hall : ∀ c ∈ a :: t, (fun c => !isBrace c) c = true := by
      intro c hc; simp [h c hc]
    have h1 : (a :: t).takeWhile (fun c => !isBrace c) = a :: t := takeWhile_all hall
    have h2 : (a :: t).dropWhile (fun c => !isBrace c) = [] := dropWhile_all hall
    have ht : text (a :: t) = some ([], a :: t) := by
      unfold text; rw [h1, h2]
    simp [parseFmtString, formatString, ht, formatLoop, maybeFormat_nil, text_nil, placeholdersFrom]

/-- The formats a derivation denotes. -/
def formatsOf : List Piece → List Format
  | [] => []
  | .ph p :: ps => p.toFormat :: formatsOf ps
  | _ :: ps => formatsOf ps

theorem PhA.toFormat_isStar (p : PhA) : p.toFormat.isStar = p.isStar := by
  unfold PhA.toFormat Format.isStar PhA.isStar
  cases p.spec with
  | none => rfl
  | some s =>
    simp only [Option.map, SpecA.toSpec]
    cases s.prec with
    | none => rfl
    | some pr => cases pr <;> simp [PrecA.toPrec] <;> rfl

theorem SpecA.toSpec_hasModifiers (s : SpecA) : s.toSpec.hasModifiers = s.hasModifiers := by
  unfold SpecA.toSpec Spec.hasModifiers SpecA.hasModifiers
  cases s.align <;> cases s.width <;> cases s.prec <;> cases s.ty <;> simp [Ty.isTrivial, Ty.isDebugHex]

theorem PhA.toFormat_mods (p : PhA) : p.toFormat.hasModifiers = p.mods := by
  unfold PhA.toFormat Format.hasModifiers PhA.mods
  cases p.spec with
  | none => rfl
  | some s => simp [SpecA.toSpec_hasModifiers]

theorem PhA.toFormat_trait (p : PhA) : p.toFormat.ty.trait = p.trait := by
  unfold PhA.toFormat Format.ty PhA.trait
  cases p.spec with
  | none => rfl
  | some s => simp [SpecA.toSpec]

/-- The implicit-counter logic of `parse_fmt_string` is std's: explicit arguments do not advance
the counter, `.*` advances it once more. -/
theorem placeholdersFrom_formatsOf (n : Nat) (ps : List Piece) :
    placeholdersFrom n (formatsOf ps) = meaningFrom n ps := by
  induction ps generalizing n with
  | nil => rfl
  | cons p ps ih =>
    cases p with
    | text cs => simpa [formatsOf, meaningFrom] using ih n
    | lbrace => simpa [formatsOf, meaningFrom] using ih n
    | rbrace => simpa [formatsOf, meaningFrom] using ih n
    | ph p =>
      simp only [formatsOf, placeholdersFrom, meaningFrom, PhA.toFormat_isStar, PhA.toFormat_mods,
        PhA.toFormat_trait]
      cases hp : p.arg with
      | none => simp [PhA.toFormat, hp, ih]
      | some a => cases a <;> simp [PhA.toFormat, hp, ArgA.toArg, ih]

end Dm.Fmt

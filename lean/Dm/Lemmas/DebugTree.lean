import Dm.Model.DebugTree

/- Helper lemmas for the second layer of the C06 model. -/
namespace Dm.Dbg

theorem pad_append' (st : Bool) (a b : List Char) :
    pad st (a ++ b) = ((pad st a).1 ++ (pad (pad st a).2 b).1, (pad (pad st a).2 b).2) := by
  induction a generalizing st with
  | nil => simp [pad]
  | cons c cs ih =>
    simp only [List.cons_append, pad]
    rw [ih]
    split <;> simp

theorem splitInclusive_eq_nil (s : List Char) : splitInclusive s = [] ↔ s = [] := by
  cases s with
  | nil => simp [splitInclusive]
  | cons c cs =>
    simp only [splitInclusive]
    split
    · simp
    · split <;> simp

theorem splitInclusive_ne_nil_mem (s : List Char) : ∀ p ∈ splitInclusive s, p ≠ [] := by
  induction s with
  | nil => simp [splitInclusive]
  | cons c cs ih =>
    simp only [splitInclusive]
    split
    · intro p hp
      simp only [List.mem_cons] at hp
      rcases hp with rfl | hp
      · simp
      · exact ih p hp
    · split
      · simp
      · rename_i p ps hps
        intro q hq
        simp only [List.mem_cons] at hq
        rcases hq with rfl | hq
        · simp
        · exact ih q (by rw [hps]; simp [hq])

theorem endsNl_cons (c : Char) (p : List Char) (hp : p ≠ []) : endsNl (c :: p) = endsNl p := by
  unfold endsNl
  cases p with
  | nil => exact absurd rfl hp
  | cons d ds => simp [List.getLast?_cons_cons]

/-- The loop of `Padded::write_str` computes the character-level specification. -/
theorem paddedWrite_eq_pad (s : List Char) : ∀ st : Bool, paddedWrite st s = pad st s := by
  induction s with
  | nil => intro st; rfl
  | cons c cs ih =>
    intro st
    unfold paddedWrite
    simp only [splitInclusive]
    by_cases hc : c = '\n'
    · subst hc
      have h := ih true
      unfold paddedWrite at h
      simp only [if_true, paddedPieces, pad, endsNl, List.getLast?_singleton, decide_true, h]
      cases st <;> simp [indent]
    · simp only [hc, if_false]
      cases hsp : splitInclusive cs with
      | nil =>
        have : cs = [] := (splitInclusive_eq_nil cs).1 hsp
        subst this
        have hd : decide (c = '\n') = false := by simp [hc]
        simp only [paddedPieces, pad, endsNl, List.getLast?_singleton, hd]
        cases st <;> simp [indent, hc]
      | cons p ps =>
        have hp : p ≠ [] := splitInclusive_ne_nil_mem cs p (by rw [hsp]; simp)
        have h := ih false
        unfold paddedWrite at h
        rw [hsp] at h
        simp only [paddedPieces] at h
        have hd : decide (c = '\n') = false := by simp [hc]
        simp only [paddedPieces, pad, endsNl_cons c p hp, hd, ← h]
        cases st <;> simp [indent]

/-- Any way of cutting a text into `write_str` calls gives the same output through `Padded`. -/
theorem paddedWrites_eq_pad (chunks : List (List Char)) :
    ∀ st : Bool, paddedWrites st chunks = pad st chunks.flatten := by
  induction chunks with
  | nil => intro st; rfl
  | cons s ss ih =>
    intro st
    simp only [paddedWrites, List.flatten_cons, pad_append', paddedWrite_eq_pad, ih]

theorem dmFieldsCode_flat (o : Opts) (h : o.alt = false) (fs : List FieldScript) : ∀ i : Nat,
    dmFieldsCode o i fs
      = ((fs.map fun (s : FieldScript) (o : Opts) => (s o).flatten).zipIdx i |>.map fun (f, j) =>
          (if j = 0 then ['('] else [',', ' ']) ++ f o).flatten := by
  induction fs with
  | nil => intro i; rfl
  | cons f r ih =>
    intro i
    simp only [dmFieldsCode, h, Bool.false_eq_true, if_false, List.map_cons, List.zipIdx_cons,
      List.flatten_cons, ih (i + 1)]

theorem dmFieldsCode_pretty (o : Opts) (h : o.alt = true) (fs : List FieldScript) : ∀ i : Nat,
    dmFieldsCode o i fs
      = (if i = 0 ∧ ¬ fs.isEmpty then ['(', '\n'] else [])
        ++ ((fs.map fun (s : FieldScript) (o : Opts) => (s o).flatten).map fun f =>
              prettyField (f freshAlt)).flatten := by
  induction fs with
  | nil => intro i; simp [dmFieldsCode]
  | cons f r ih =>
    intro i
    have hw : (paddedWrites true (f freshAlt ++ [[',', '\n']])).1
        = prettyField ((f freshAlt).flatten) := by
      rw [paddedWrites_eq_pad]
      simp [prettyField, padStr]
    simp only [dmFieldsCode, h, if_true, hw, ih (i + 1), List.map_cons, List.flatten_cons]
    by_cases hi : i = 0 <;> simp [hi]

end Dm.Dbg

namespace Dm.Dbg

/-- What a tuple builder writes, as a function of the texts the fields wrote. -/
def tupleText (name : List Char) (ts : List (List Char)) (exhaustive alt : Bool) : List Char :=
  let body : List Char :=
    if alt then (if ts.isEmpty then [] else ['(', '\n']) ++ (ts.map prettyField).flatten
    else (ts.zipIdx.map fun (t, i) => (if i = 0 then ['('] else [',', ' ']) ++ t).flatten
  let close : List Char :=
    if exhaustive then
      (if ts.isEmpty then []
       else (if ts.length = 1 ∧ name.isEmpty ∧ ¬ alt then [','] else []) ++ [')'])
    else
      (if ts.isEmpty then ['(', '.', '.', ')']
       else if alt then padStr ['.', '.', '\n'] ++ [')'] else [',', ' ', '.', '.', ')'])
  name ++ body ++ close

/-- The same for core's `DebugStruct`. -/
def structText (name : List Char) (ts : List (List Char × List Char)) (exhaustive alt : Bool) :
    List Char :=
  let body : List Char :=
    if alt then
      (if ts.isEmpty then [] else [' ', '{', '\n'])
        ++ (ts.map fun (n, t) => padStr (n ++ [':', ' '] ++ t ++ [',', '\n'])).flatten
    else
      (ts.zipIdx.map fun ((n, t), i) =>
        (if i = 0 then [' ', '{', ' '] else [',', ' ']) ++ n ++ [':', ' '] ++ t).flatten
  let close : List Char :=
    if exhaustive then
      (if ts.isEmpty then [] else if alt then ['}'] else [' ', '}'])
    else
      (if ts.isEmpty then [' ', '{', ' ', '.', '.', ' ', '}']
       else if alt then padStr ['.', '.', '\n'] ++ ['}'] else [',', ' ', '.', '.', ' ', '}'])
  name ++ body ++ close

theorem zipIdx_map_flat {α β : Type} (g : α → β) (h : β × Nat → List Char) (l : List α) (i : Nat) :
    ((l.map g).zipIdx i).map h = (l.zipIdx i).map fun (a, j) => h (g a, j) := by
  induction l generalizing i with
  | nil => rfl
  | cons a r ih => simp [List.zipIdx_cons, ih]

theorem dmTuple_eq_text (name : List Char) (fs : List FieldFmt) (ex : Bool) (o : Opts) :
    dmTuple name fs ex o
      = tupleText name (fs.map fun f => f (if o.alt then freshAlt else o)) ex o.alt := by
  cases ha : o.alt
  · simp only [dmTuple, tupleText, ha, Bool.false_eq_true, if_false, zipIdx_map_flat,
      List.isEmpty_map, List.length_map]
  · simp only [dmTuple, tupleText, ha, if_true, List.map_map, List.isEmpty_map, List.length_map]
    rfl

theorem stdTuple_eq_text (name : List Char) (fs : List FieldFmt) (ex : Bool) (o : Opts) :
    stdTuple name fs ex o = tupleText name (fs.map fun f => f o) ex o.alt := by
  cases ha : o.alt
  · simp only [stdTuple, tupleText, ha, Bool.false_eq_true, if_false, zipIdx_map_flat,
      List.isEmpty_map, List.length_map]
  · simp only [stdTuple, tupleText, ha, if_true, List.map_map, List.isEmpty_map, List.length_map]
    rfl

theorem zip_map_right {α β γ : Type} (ns : List α) (fs : List β) (g : β → γ) :
    ns.zip (fs.map g) = (ns.zip fs).map fun (n, f) => (n, g f) := by
  induction ns generalizing fs with
  | nil => rfl
  | cons n r ih => cases fs <;> simp [ih]

theorem stdStruct_eq_text (name : List Char) (ns : List (List Char)) (fs : List FieldFmt) (ex : Bool)
    (o : Opts) :
    stdStruct name (ns.zip fs) ex o = structText name (ns.zip (fs.map fun f => f o)) ex o.alt := by
  rw [zip_map_right]
  cases ha : o.alt
  · simp only [stdStruct, structText, ha, Bool.false_eq_true, if_false, zipIdx_map_flat,
      List.isEmpty_map]
  · simp only [stdStruct, structText, ha, if_true, List.map_map, List.isEmpty_map]
    rfl

theorem opts_fresh_of (o : Opts) (ha : o.alt = true) (hr : o.rest = 0) : o = freshAlt := by
  cases o; simp_all [freshAlt]

end Dm.Dbg

import Dm.Model.TypedAttr

/- Helper lemmas about the typed attribute parsers (`Dm.Model.TypedAttr`). -/
namespace Dm.TypedAttr

/-- The two `Either` chains of `mod attr`, for either setting of the legacy switch. -/
inductive IsConvParser : (Attr → Option Conv) → Prop
  | conversion (l : Bool) : IsConvParser (pConversion l)
  | field (l : Bool) : IsConvParser (pFieldConversion l)

theorem pTypes_some {l : Bool} {a : Attr} {c : Conv} (h : pTypes l a = some c) :
    ∃ args, a = .list args ∧ c = .types args.items ∧ allTypes args.items = true
      ∧ (l && startsWithTypes args.items) = false ∧ (args.items.isEmpty && args.trailing) = false := by
  cases a with
  | bare => simp [pTypes] at h
  | list args =>
    refine ⟨args, rfl, ?_⟩
    simp only [pTypes] at h
    by_cases h1 : (l && startsWithTypes args.items) = true
    · simp [h1] at h
    · by_cases h2 : (args.items.isEmpty && args.trailing) = true
      · simp [h1, h2] at h
      · by_cases h3 : allTypes args.items = true
        · rw [if_neg h1, if_neg h2, if_pos h3] at h
          exact ⟨by simpa using h.symm, h3, by simpa using h1, by simpa using h2⟩
        · rw [if_neg h1, if_neg h2, if_neg h3] at h
          simp at h

theorem orElse_some {l r : Attr → Option Conv} {a : Attr} {c : Conv} (h : orElse l r a = some c) :
    l a = some c ∨ (l a = none ∧ r a = some c) := by
  unfold orElse at h
  split at h
  · rename_i c' hc; left; rw [hc]; exact h
  · rename_i hn; right; exact ⟨hn, h⟩

theorem pEmpty_some {a : Attr} {c : Conv} (h : pEmpty a = some c) : a = .bare ∧ c = .empty := by
  cases a <;> simp [pEmpty] at h ⊢; exact h.symm

theorem pForward_some {a : Attr} {c : Conv} (h : pForward a = some c) :
    a = .list ⟨[.word .forward], false⟩ ∧ c = .forward := by
  unfold pForward at h
  split at h
  · exact ⟨rfl, by simpa using h.symm⟩
  · simp at h

theorem pSkip_some {a : Attr} {c : Conv} (h : pSkip a = some c) :
    (a = .list ⟨[.word .skip], false⟩ ∨ a = .list ⟨[.word .ignore], false⟩) ∧ c = .skip := by
  unfold pSkip at h
  split at h
  · exact ⟨Or.inl rfl, by simpa using h.symm⟩
  · exact ⟨Or.inr rfl, by simpa using h.symm⟩
  · simp at h

/-- What an accepted attribute can be, for both chains. -/
theorem conv_cases {p : Attr → Option Conv} (hp : IsConvParser p) {a : Attr} {c : Conv} (h : p a = some c) :
    (a = .bare ∧ c = .empty)
    ∨ ((a = .list ⟨[.word .skip], false⟩ ∨ a = .list ⟨[.word .ignore], false⟩) ∧ c = .skip)
    ∨ (a = .list ⟨[.word .forward], false⟩ ∧ c = .forward)
    ∨ (∃ args, a = .list args ∧ c = .types args.items ∧ allTypes args.items = true) := by
  cases hp with
  | conversion l =>
    rcases orElse_some h with h | ⟨_, h⟩
    · exact Or.inr (Or.inr (Or.inl (pForward_some h)))
    · obtain ⟨args, h1, h2, h3, _⟩ := pTypes_some h
      exact Or.inr (Or.inr (Or.inr ⟨args, h1, h2, h3⟩))
  | field l =>
    rcases orElse_some h with h | ⟨_, h⟩
    · exact Or.inl (pEmpty_some h)
    · rcases orElse_some h with h | ⟨_, h⟩
      · exact Or.inr (Or.inl (pSkip_some h))
      · rcases orElse_some h with h | ⟨_, h⟩
        · exact Or.inr (Or.inr (Or.inl (pForward_some h)))
        · obtain ⟨args, h1, h2, h3, _⟩ := pTypes_some h
          exact Or.inr (Or.inr (Or.inr ⟨args, h1, h2, h3⟩))

theorem merge_some {a b c : Conv} (h : a.merge b = some c) :
    ∃ xs ys, a = .types xs ∧ b = .types ys ∧ c = .types (xs ++ ys) := by
  cases a <;> cases b <;> simp [Conv.merge] at h
  rename_i xs ys
  exact ⟨xs, ys, rfl, rfl, h.symm⟩

/-- The attribute is a type list under `p`. -/
def typesOf (p : Attr → Option Conv) (a : Attr) : Option (List Item) :=
  match p a with
  | some (.types xs) => some xs
  | _ => none

/-- All attributes are type lists: their lists, in order. -/
def typeChunks (p : Attr → Option Conv) : List Attr → Option (List (List Item))
  | [] => some []
  | a :: rest =>
    match typesOf p a, typeChunks p rest with
    | some xs, some cs => some (xs :: cs)
    | _, _ => none

theorem typesOf_some {p : Attr → Option Conv} {a : Attr} {xs : List Item} :
    typesOf p a = some xs ↔ p a = some (.types xs) := by
  unfold typesOf
  split
  · rename_i ys h; rw [h]; simp
  · rename_i h
    constructor
    · intro h'; simp at h'
    · intro h'; exact absurd h' (h xs)

/-- Folding on from an accumulated type list: every further attribute must be a type list, and the result is
the concatenation. -/
theorem parseAttrsFrom_types (p : Attr → Option Conv) (acc : List Item) (attrs : List Attr) :
    parseAttrsFrom p (some (.types acc)) attrs
      = (typeChunks p attrs).map fun cs => some (.types (acc ++ cs.flatten)) := by
  induction attrs generalizing acc with
  | nil => simp [parseAttrsFrom, typeChunks]
  | cons a rest ih =>
    unfold parseAttrsFrom typeChunks typesOf
    cases hp : p a with
    | none => simp
    | some c =>
      cases c with
      | types ys =>
        simp only [Conv.merge]
        rw [ih]
        cases typeChunks p rest <;> simp [List.append_assoc]
      | empty => simp [Conv.merge]
      | skip => simp [Conv.merge]
      | forward => simp [Conv.merge]

/-- Folding on from anything that is not a type list fails as soon as there is another attribute. -/
theorem parseAttrsFrom_nontypes (p : Attr → Option Conv) (c : Conv) (hc : ∀ xs, c ≠ .types xs) (a : Attr) (rest : List Attr) :
    parseAttrsFrom p (some c) (a :: rest) = none := by
  unfold parseAttrsFrom
  cases hp : p a with
  | none => rfl
  | some d =>
    have : c.merge d = none := by
      cases c <;> cases d <;> simp [Conv.merge]
      exact absurd rfl (hc _)
    simp [this]

/-- `parse_attrs_with` in closed form. -/
theorem parseAttrs_nil (p : Attr → Option Conv) : parseAttrs p [] = some none := rfl

theorem parseAttrs_single (p : Attr → Option Conv) (a : Attr) : parseAttrs p [a] = (p a).map some := by
  unfold parseAttrs parseAttrsFrom
  cases p a <;> simp [parseAttrsFrom]

theorem parseAttrs_many (p : Attr → Option Conv) (a b : Attr) (rest : List Attr) :
    parseAttrs p (a :: b :: rest) = (typeChunks p (a :: b :: rest)).map fun cs => some (.types cs.flatten) := by
  unfold parseAttrs
  rw [parseAttrsFrom]
  cases hp : p a with
  | none => simp [typeChunks, typesOf, hp]
  | some c =>
    cases c with
    | types xs =>
      simp only []
      rw [parseAttrsFrom_types]
      rw [show typeChunks p (a :: b :: rest) = (match typeChunks p (b :: rest) with | some cs => some (xs :: cs) | none => none) by
        conv => lhs; unfold typeChunks typesOf
        simp [hp]
        cases typeChunks p (b :: rest) <;> rfl]
      cases typeChunks p (b :: rest) <;> simp
    | empty =>
      simp only []
      rw [parseAttrsFrom_nontypes p _ (by intro xs h; cases h)]
      simp [typeChunks, typesOf, hp]
    | skip =>
      simp only []
      rw [parseAttrsFrom_nontypes p _ (by intro xs h; cases h)]
      simp [typeChunks, typesOf, hp]
    | forward =>
      simp only []
      rw [parseAttrsFrom_nontypes p _ (by intro xs h; cases h)]
      simp [typeChunks, typesOf, hp]

theorem typeChunks_perm (p : Attr → Option Conv) {l l' : List Attr} (h : l.Perm l') {cs : List (List Item)}
    (hc : typeChunks p l = some cs) : ∃ cs', typeChunks p l' = some cs' ∧ cs.Perm cs' := by
  induction h generalizing cs with
  | nil => exact ⟨cs, hc, List.Perm.refl _⟩
  | cons a _ ih =>
    unfold typeChunks at hc ⊢
    cases ha : typesOf p a with
    | none => simp [ha] at hc
    | some xs =>
      rename_i l1 l2 _
      cases hr : typeChunks p l1 with
      | none => simp [ha, hr] at hc
      | some cs1 =>
        simp [ha, hr] at hc
        obtain ⟨cs2, h2, hp2⟩ := ih hr
        refine ⟨xs :: cs2, by simp [h2], ?_⟩
        rw [← hc]; exact List.Perm.cons _ hp2
  | swap a b l =>
    unfold typeChunks at hc ⊢
    unfold typeChunks at hc ⊢
    cases ha : typesOf p a <;> cases hb : typesOf p b <;> cases hl : typeChunks p l <;> simp [ha, hb, hl] at hc ⊢
    rw [← hc]; exact List.Perm.swap _ _ _
  | trans _ _ ih1 ih2 =>
    obtain ⟨c1, h1, p1⟩ := ih1 hc
    obtain ⟨c2, h2, p2⟩ := ih2 h1
    exact ⟨c2, h2, p1.trans p2⟩

/-! ### TryFrom -/

theorem pRepr_discriminant {a : Attr} (h : pRepr a = some .discriminant) : a = .list ⟨[.word .repr], false⟩ := by
  unfold pRepr at h
  split at h
  · rfl
  · split at h
    · simp at h
    · split at h <;> simp at h
  · simp at h

theorem reprMerge_some {a b c : ReprConv} (h : a.merge b = some c) : ∃ xs, c = .types xs := by
  cases a <;> cases b <;> simp [ReprConv.merge] at h
  exact ⟨_, h.symm⟩

theorem parseReprFrom_cons_some {prev : ReprConv} {b : Attr} {rest : List Attr} {r : Option ReprConv}
    (h : parseReprFrom (some prev) (b :: rest) = some r) : ∃ xs, r = some (.types xs) := by
  induction rest generalizing prev b with
  | nil =>
    unfold parseReprFrom at h
    cases hb : pRepr b with
    | none => simp [hb] at h
    | some c =>
      cases hm : prev.merge c with
      | none => simp [hb, hm] at h
      | some m =>
        simp [hb, hm, parseReprFrom] at h
        obtain ⟨xs, rfl⟩ := reprMerge_some hm
        exact ⟨xs, h.symm⟩
  | cons d ds ih =>
    unfold parseReprFrom at h
    cases hb : pRepr b with
    | none => simp [hb] at h
    | some c =>
      cases hm : prev.merge c with
      | none => simp [hb, hm] at h
      | some m =>
        simp [hb, hm] at h
        exact ih h

end Dm.TypedAttr

import Dm.Model.TypedAttr

/- Helper lemmas about the Into derive's attribute parser (`Dm.Model.TypedAttr`, section Into). -/
namespace Dm.TypedAttr

@[simp] theorem Convs.merge_empty_left (c : Convs) : ({} : Convs).merge c = c := by
  cases c; simp [Convs.merge]

@[simp] theorem Convs.merge_empty_right (c : Convs) : c.merge {} = c := by
  cases c; simp [Convs.merge]

theorem Convs.merge_assoc (a b c : Convs) : (a.merge b).merge c = a.merge (b.merge c) := by
  simp [Convs.merge, Bool.or_assoc, List.append_assoc]

@[simp] theorem ConvsAttr.merge_empty_left (c : ConvsAttr) : ({} : ConvsAttr).merge c = c := by
  cases c; simp [ConvsAttr.merge]

@[simp] theorem ConvsAttr.merge_empty_right (c : ConvsAttr) : c.merge {} = c := by
  cases c; simp [ConvsAttr.merge]

theorem ConvsAttr.merge_assoc (a b c : ConvsAttr) : (a.merge b).merge c = a.merge (b.merge c) := by
  simp [ConvsAttr.merge, Convs.merge_assoc]

/-- Combination of two loop states: the second loop run after the first. -/
def Loop.comb (a b : Loop) : Loop :=
  { out := a.out.merge b.out, wrapped := a.wrapped || b.wrapped, top := a.top || b.top }

@[simp] theorem Loop.comb_empty_left (s : Loop) : ({} : Loop).comb s = s := by
  cases s; simp [Loop.comb]

theorem Loop.comb_assoc (a b c : Loop) : (a.comb b).comb c = a.comb (b.comb c) := by
  simp [Loop.comb, ConvsAttr.merge_assoc, Bool.or_assoc]

theorem inner_comb (c : Convs) (it : Item) : inner c it = (inner {} it).map (c.merge ·) := by
  cases it with
  | word w => cases c; simp [inner, Convs.merge]
  | call w args tr =>
    simp only [inner]
    split
    · rfl
    · split
      · cases c; simp [Convs.merge]
      · rfl
  | pathTy k => rfl
  | otherTy k => rfl
  | strLit => rfl
  | intLit => rfl

theorem loopStep_comb (s : Loop) (it : Item) : loopStep s it = (loopStep {} it).map (s.comb ·) := by
  obtain ⟨⟨o, r, m⟩, wr, tp⟩ := s
  have key : ∀ (c : Convs) (it : Item) (f g : Convs → Loop),
      (∀ d, f (c.merge d) = g d) → (inner c it).map f = ((inner {} it).map g) := by
    intro c it f g h
    rw [inner_comb c it]
    cases inner {} it <;> simp [h]
  cases it with
  | word w =>
    cases w <;> simp only [loopStep, isType, Option.map_map] <;>
      first
      | (apply key; intro d; simp [Loop.comb, ConvsAttr.merge, Function.comp])
      | simp [Loop.comb, ConvsAttr.merge, Convs.merge]
  | call w args tr =>
    cases w <;> simp only [loopStep, isType, Option.map_map] <;>
      first
      | (apply key; intro d; simp [Loop.comb, ConvsAttr.merge, Function.comp])
      | simp [Loop.comb, ConvsAttr.merge, Convs.merge]
  | pathTy k => simp [loopStep, isType, Loop.comb, ConvsAttr.merge, Convs.merge]
  | otherTy k => simp [loopStep, isType, Loop.comb, ConvsAttr.merge, Convs.merge]
  | strLit => simp [loopStep, isType]
  | intLit => simp [loopStep, isType]

theorem loopFrom_comb (s : Loop) (xs : List Item) : loopFrom s xs = (loopFrom {} xs).map (s.comb ·) := by
  induction xs generalizing s with
  | nil => simp [loopFrom, Loop.comb]
  | cons it rest ih =>
    unfold loopFrom
    rw [loopStep_comb s it]
    cases h : loopStep {} it with
    | none => rfl
    | some d =>
      simp only [Option.map]
      rw [ih (s.comb d), ih d]
      cases loopFrom {} rest <;> simp [Loop.comb_assoc]

theorem loopFrom_append (s : Loop) (xs ys : List Item) :
    loopFrom s (xs ++ ys) = (loopFrom s xs).bind fun s' => loopFrom s' ys := by
  induction xs generalizing s with
  | nil => rfl
  | cons it rest ih =>
    simp only [List.cons_append, loopFrom]
    cases loopStep s it with
    | none => rfl
    | some s' => exact ih s'

/-- The loop over a concatenation is the combination of the two loops. -/
theorem loopFrom_append_comb (xs ys : List Item) :
    loopFrom {} (xs ++ ys) = (loopFrom {} xs).bind fun a => (loopFrom {} ys).map fun b => a.comb b := by
  rw [loopFrom_append]
  cases h : loopFrom {} xs with
  | none => rfl
  | some a => simp only [Option.bind]; exact loopFrom_comb a ys

/-- An item that no loop state accepts makes the whole loop fail. -/
theorem loopFrom_none_of_mem {it : Item} (hit : ∀ s, loopStep s it = none) {xs : List Item} (hm : it ∈ xs) (s : Loop) :
    loopFrom s xs = none := by
  induction xs generalizing s with
  | nil => cases hm
  | cons x rest ih =>
    unfold loopFrom
    rcases List.mem_cons.mp hm with rfl | hm
    · rw [hit s]
    · cases loopStep s x with
      | none => rfl
      | some s' => exact ih hm s'

/-! ### The legacy check never changes the verdict -/

theorem parseList_some {it : Item} {n : Nat} (h : parseList it = some n) : ∃ args tr, it = .call .types args tr := by
  cases it with
  | call w args tr =>
    cases w <;> simp [parseList] at h
    exact ⟨args, tr, rfl⟩
  | _ => simp [parseList] at h

theorem loopStep_types_call (s : Loop) (args : List Item) (tr : Bool) : loopStep s (.call .types args tr) = none := by
  simp [loopStep, isType]

theorem inner_none_of_call_mem (c : Convs) (w : W) (args : List Item) (tr : Bool) {l : Item}
    (hl : l ∈ args) (hc : isType l = false) : inner c (.call w args tr) = none := by
  have : allTypes args = false := by
    simp only [allTypes]
    apply Bool.eq_false_iff.mpr
    intro h
    rw [List.all_eq_true] at h
    rw [h l hl] at hc; cases hc
  simp only [inner]
  split
  · rfl
  · simp [this]

theorem legacyStep_pos_fails {it : Item} {k : Nat} (h : legacyStep it = some k) (hk : 0 < k) : ∀ s, loopStep s it = none := by
  intro s
  cases it with
  | word w =>
    simp only [legacyStep] at h
    split at h
    · simp at h; omega
    · simp at h
  | call w args tr =>
    simp only [legacyStep] at h
    by_cases hw : isWrapWord w = true
    · rw [if_pos hw] at h
      simp only [legacyInner] at h
      split at h
      · simp at h
      · split at h
        · cases hl : args.getLast? with
          | none => simp [hl] at h
          | some l =>
            simp only [hl] at h
            obtain ⟨a', t', rfl⟩ := parseList_some h
            have hmem : Item.call .types a' t' ∈ args := List.mem_of_getLast? hl
            have hin : ∀ c, inner c (.call w args tr) = none := fun c => inner_none_of_call_mem c w args tr hmem rfl
            cases w <;> simp [isWrapWord] at hw <;> simp [loopStep, hin]
        · simp at h
    · rw [if_neg hw] at h
      obtain ⟨a', t', h'⟩ := parseList_some h
      cases h'
      exact loopStep_types_call s args tr
  | pathTy k => simp [legacyStep] at h
  | otherTy k => simp [legacyStep] at h
  | strLit => simp [legacyStep] at h
  | intLit => simp [legacyStep] at h

theorem legacyFold_pos_fails {xs : List Item} {n : Nat} (h : legacyFold xs = some n) (hn : 0 < n) :
    ∃ it ∈ xs, ∀ s, loopStep s it = none := by
  induction xs generalizing n with
  | nil => simp [legacyFold] at h; omega
  | cons x rest ih =>
    unfold legacyFold at h
    cases hx : legacyStep x with
    | none => simp [hx] at h
    | some k =>
      cases hr : legacyFold rest with
      | none => simp [hx, hr] at h
      | some m =>
        simp [hx, hr] at h
        by_cases hk : 0 < k
        · exact ⟨x, by simp, legacyStep_pos_fails hx hk⟩
        · obtain ⟨it, hm, hf⟩ := ih hr (by omega)
          exact ⟨it, by simp [hm], hf⟩

/-- What `check_legacy_syntax` refuses, the parser proper refuses too: the check decides the wording only. -/
theorem legacy_rejected_anyway (a : Args) (h : isLegacy a = true) : pConvsArgs a = none := by
  unfold isLegacy at h
  split at h
  · simp at h
  · rename_i hne
    simp only [Bool.and_eq_true] at h
    obtain ⟨_, h2⟩ := h
    cases hf : legacyFold a.items with
    | none => simp [hf] at h2
    | some n =>
      simp [hf] at h2
      obtain ⟨it, hm, hfail⟩ := legacyFold_pos_fails hf h2
      unfold pConvsArgs
      rw [if_neg hne, loopFrom_none_of_mem hfail hm]

theorem pConvs_eq (a : Args) : pConvs (.list a) = pConvsArgs a := by
  simp only [pConvs]
  split
  · rename_i h; exact (legacy_rejected_anyway a h).symm
  · rfl

/-! ### Which items set `top_level_type` / `has_wrapped_type` -/

/-- `owned`, `ref`, `ref_mut`, alone or with a parenthesised list. -/
def isWrapItem : Item → Bool
  | .word w => isWrapWord w
  | .call w _ _ => isWrapWord w
  | _ => false

/-- "mixing regular types with wrapped into `owned`/`ref`/`ref_mut`". -/
def mixing (l : List Item) : Bool := l.any isWrapItem && l.any (fun i => !isWrapItem i)

theorem loopStep_flags {it : Item} {d : Loop} (h : loopStep {} it = some d) :
    d.wrapped = isWrapItem it ∧ d.top = !isWrapItem it := by
  cases it with
  | word w =>
    cases w <;> simp [loopStep, isType, inner, isWrapItem, isWrapWord] at h ⊢ <;> (subst h; simp)
  | call w args tr =>
    cases w <;> simp [loopStep, isType] at h <;>
      (obtain ⟨a, _, rfl⟩ := h; simp [isWrapItem, isWrapWord])
  | pathTy k => simp [loopStep, isType, isWrapItem] at h ⊢; subst h; simp
  | otherTy k => simp [loopStep, isType, isWrapItem] at h ⊢; subst h; simp
  | strLit => simp [loopStep, isType] at h
  | intLit => simp [loopStep, isType] at h

theorem loopFrom_flags {xs : List Item} {s : Loop} (h : loopFrom {} xs = some s) :
    s.wrapped = xs.any isWrapItem ∧ s.top = xs.any (fun i => !isWrapItem i) := by
  induction xs generalizing s with
  | nil => simp [loopFrom] at h; subst h; simp
  | cons it rest ih =>
    unfold loopFrom at h
    cases hd : loopStep {} it with
    | none => simp [hd] at h
    | some d =>
      simp only [hd] at h
      rw [loopFrom_comb] at h
      cases hr : loopFrom {} rest with
      | none => simp [hr] at h
      | some e =>
        simp [hr] at h
        obtain ⟨h1, h2⟩ := loopStep_flags hd
        obtain ⟨h3, h4⟩ := ih hr
        subst h
        simp [Loop.comb, h1, h2, h3, h4]

/-- `ConversionsAttribute::parse` in closed form. -/
theorem pConvsArgs_eq (a : Args) :
    pConvsArgs a = if a.items.isEmpty && a.trailing then none else
      match loopFrom {} a.items with
      | some s => if mixing a.items then none else some s.out
      | none => none := by
  unfold pConvsArgs
  split
  · rfl
  · cases h : loopFrom {} a.items with
    | none => rfl
    | some s =>
      obtain ⟨h1, h2⟩ := loopFrom_flags h
      simp only [mixing, h1, h2, Bool.and_comm]
      rfl

/-! ### Several `#[into(...)]` attributes on the struct -/

def convsOf (a : Attr) : Option ConvsAttr :=
  match pIntoStruct a with
  | some (.convs c) => some c
  | _ => none

def convChunks : List Attr → Option (List ConvsAttr)
  | [] => some []
  | a :: rest =>
    match convsOf a, convChunks rest with
    | some c, some cs => some (c :: cs)
    | _, _ => none

theorem convsOf_some {a : Attr} {c : ConvsAttr} : convsOf a = some c ↔ pIntoStruct a = some (.convs c) := by
  unfold convsOf
  split
  · rename_i d h; rw [h]; simp
  · rename_i h
    constructor
    · intro h'; simp at h'
    · intro h'; exact absurd h' (h c)

theorem parseIntoStructFrom_convs (acc : ConvsAttr) (attrs : List Attr) :
    parseIntoStructFrom (some (.convs acc)) attrs
      = (convChunks attrs).map fun cs => some (.convs (cs.foldl ConvsAttr.merge acc)) := by
  induction attrs generalizing acc with
  | nil => simp [parseIntoStructFrom, convChunks]
  | cons a rest ih =>
    unfold parseIntoStructFrom convChunks convsOf
    cases hp : pIntoStruct a with
    | none => simp
    | some c =>
      cases c with
      | convs d =>
        simp only [IntoStruct.merge]
        rw [ih]
        cases convChunks rest <;> simp
      | empty => simp [IntoStruct.merge]

theorem parseIntoStruct_single (a : Attr) : parseIntoStruct [a] = (pIntoStruct a).map some := by
  unfold parseIntoStruct parseIntoStructFrom
  cases pIntoStruct a <;> simp [parseIntoStructFrom]

theorem parseIntoStruct_many (a b : Attr) (rest : List Attr) :
    parseIntoStruct (a :: b :: rest)
      = (convChunks (a :: b :: rest)).map fun cs => some (.convs (cs.foldl ConvsAttr.merge {})) := by
  unfold parseIntoStruct
  rw [parseIntoStructFrom]
  cases hp : pIntoStruct a with
  | none => simp [convChunks, convsOf, hp]
  | some c =>
    cases c with
    | convs d =>
      simp only []
      rw [parseIntoStructFrom_convs]
      have : convChunks (a :: b :: rest) = (match convChunks (b :: rest) with | some cs => some (d :: cs) | none => none) := by
        conv => lhs; unfold convChunks convsOf
        simp [hp]
        cases convChunks (b :: rest) <;> rfl
      rw [this]
      cases convChunks (b :: rest) <;> simp
    | empty =>
      simp only []
      have : parseIntoStructFrom (some IntoStruct.empty) (b :: rest) = none := by
        unfold parseIntoStructFrom
        cases pIntoStruct b with
        | none => rfl
        | some d => cases d <;> simp [IntoStruct.merge]
      rw [this]
      simp [convChunks, convsOf, hp]

theorem convChunks_perm {l l' : List Attr} (h : l.Perm l') {cs : List ConvsAttr}
    (hc : convChunks l = some cs) : ∃ cs', convChunks l' = some cs' ∧ cs.Perm cs' := by
  induction h generalizing cs with
  | nil => exact ⟨cs, hc, List.Perm.refl _⟩
  | cons a _ ih =>
    unfold convChunks at hc ⊢
    cases ha : convsOf a with
    | none => simp [ha] at hc
    | some x =>
      rename_i l1 l2 _
      cases hr : convChunks l1 with
      | none => simp [ha, hr] at hc
      | some cs1 =>
        simp [ha, hr] at hc
        obtain ⟨cs2, h2, hp2⟩ := ih hr
        refine ⟨x :: cs2, by simp [h2], ?_⟩
        rw [← hc]; exact List.Perm.cons _ hp2
  | swap a b l =>
    unfold convChunks at hc ⊢
    unfold convChunks at hc ⊢
    cases ha : convsOf a <;> cases hb : convsOf b <;> cases hl : convChunks l <;> simp [ha, hb, hl] at hc ⊢
    rw [← hc]; exact List.Perm.swap _ _ _
  | trans _ _ ih1 ih2 =>
    obtain ⟨c1, h1, p1⟩ := ih1 hc
    obtain ⟨c2, h2, p2⟩ := ih2 h1
    exact ⟨c2, h2, p1.trans p2⟩

/-- Same conversions up to the order of the listed types. -/
def Convs.Equiv (a b : Convs) : Prop := a.consider = b.consider ∧ a.tys.Perm b.tys

def ConvsAttr.Equiv (a b : ConvsAttr) : Prop := a.owned.Equiv b.owned ∧ a.ref.Equiv b.ref ∧ a.refMut.Equiv b.refMut

theorem foldl_merge_proj (cs : List ConvsAttr) (acc : ConvsAttr) :
    cs.foldl ConvsAttr.merge acc =
      { owned := { consider := acc.owned.consider || cs.any (·.owned.consider), tys := acc.owned.tys ++ (cs.map (·.owned.tys)).flatten },
        ref := { consider := acc.ref.consider || cs.any (·.ref.consider), tys := acc.ref.tys ++ (cs.map (·.ref.tys)).flatten },
        refMut := { consider := acc.refMut.consider || cs.any (·.refMut.consider), tys := acc.refMut.tys ++ (cs.map (·.refMut.tys)).flatten } } := by
  induction cs generalizing acc with
  | nil => simp
  | cons c rest ih =>
    simp only [List.foldl_cons]
    rw [ih]
    simp [ConvsAttr.merge, Convs.merge, Bool.or_assoc, List.append_assoc]

theorem foldl_merge_perm {cs cs' : List ConvsAttr} (h : cs.Perm cs') (acc : ConvsAttr) :
    (cs.foldl ConvsAttr.merge acc).Equiv (cs'.foldl ConvsAttr.merge acc) := by
  rw [foldl_merge_proj cs, foldl_merge_proj cs']
  refine ⟨⟨?_, ?_⟩, ⟨?_, ?_⟩, ⟨?_, ?_⟩⟩
  · simp only; rw [h.any_eq]
  · exact ((h.map _).flatten).append_left _
  · simp only; rw [h.any_eq]
  · exact ((h.map _).flatten).append_left _
  · simp only; rw [h.any_eq]
  · exact ((h.map _).flatten).append_left _

end Dm.TypedAttr

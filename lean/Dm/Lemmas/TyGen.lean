import Dm.Model.TySpec

namespace Dm.TyGen

mutual
  theorem ty_spec (ps : List Name) : ∀ t, tyContains ps t = (tyIdents t).any ps.contains
    | .path qself segs => by
      have h1 := segs_spec ps true segs
      cases qself with
      | none =>
        simp only [tyContains, tyIdents, Bool.false_or, List.nil_append]
        split
        · simp [segsIdents]
        · exact h1
      | some q =>
        have h0 := ty_spec ps q
        simp only [tyContains, tyIdents, List.any_append, h0]
        congr 1
        split
        · simp [segsIdents]
        · exact h1
    | .elem t => by simpa [tyContains, tyIdents] using ty_spec ps t
    | .bareFn ins out => by
      have h1 := tys_spec ps ins
      cases out with
      | none => simp [tyContains, tyIdents, h1]
      | some t => simp [tyContains, tyIdents, h1, ty_spec ps t]
    | .tuple es => by simpa [tyContains, tyIdents] using tys_spec ps es
    | .traitObj bs => by simpa [tyContains, tyIdents] using bounds_spec ps bs
    | .opaque => by simp [tyContains, tyIdents]
  theorem tys_spec (ps : List Name) : ∀ ts, tysContain ps ts = (tysIdents ts).any ps.contains
    | [] => by simp [tysContain, tysIdents]
    | t :: ts => by simp [tysContain, tysIdents, ty_spec ps t, tys_spec ps ts]
  theorem segs_spec (ps : List Name) (first : Bool) :
      ∀ segs, segsContains ps first segs = (segsIdents first segs).any ps.contains
    | [] => by simp [segsContains, segsIdents]
    | .mk i args :: rest => by
      have hr := segs_spec ps false rest
      cases args with
      | none => cases first <;> simp [segsContains, segsIdents, hr]
      | angle as => simp [segsContains, segsIdents, hr, gargs_spec ps as]
      | paren ins out =>
        cases out with
        | none => simp [segsContains, segsIdents, hr, tys_spec ps ins]
        | some t => simp [segsContains, segsIdents, hr, tys_spec ps ins, ty_spec ps t, Bool.or_assoc]
  theorem gargs_spec (ps : List Name) : ∀ gs, gargsContain ps gs = (gargsIdents gs).any ps.contains
    | [] => by simp [gargsContain, gargsIdents]
    | .ty t :: r => by simp [gargsContain, gargsIdents, ty_spec ps t, gargs_spec ps r]
    | .assocTy t :: r => by simp [gargsContain, gargsIdents, ty_spec ps t, gargs_spec ps r]
    | .other :: r => by simp [gargsContain, gargsIdents, gargs_spec ps r]
  theorem bounds_spec (ps : List Name) : ∀ bs, boundsContain ps bs = (boundsIdents bs).any ps.contains
    | [] => by simp [boundsContain, boundsIdents]
    | b :: bs => by simp [boundsContain, boundsIdents, segs_spec ps true b, bounds_spec ps bs]
end
end Dm.TyGen

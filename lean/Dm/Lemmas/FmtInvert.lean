/-
Inversion of derive_more's literal parser: whatever it accepts is the print of a derivation of the std grammar, and
what it returns is that derivation's reading. (The converse of the round trip of `FmtSpecRoundTrip`.)
-/
import Dm.Lemmas.FmtParse

namespace Dm.Fmt

theorem takeWhile_all_mem {p : Char → Bool} : ∀ (l : List Char), ∀ c ∈ l.takeWhile p, p c = true
  | [], c, hc => by cases hc
  | a :: t, c, hc => by
    by_cases ha : p a = true
    · simp only [List.takeWhile, ha] at hc
      rcases List.mem_cons.mp hc with rfl | hc
      · exact ha
      · exact takeWhile_all_mem t c hc
    · simp [List.takeWhile, ha] at hc

theorem identifier_inv (cc : CharClasses) {s r i : List Char} (h : identifier cc s = some (r, i)) :
    s = i ++ r ∧ IsIdent cc i := by
  cases s with
  | nil => simp [identifier] at h
  | cons c cs =>
    simp only [identifier] at h
    by_cases hst : cc.isStart c = true
    · simp only [hst, if_true, Option.some.injEq, Prod.mk.injEq] at h
      obtain ⟨rfl, rfl⟩ := h
      exact ⟨by simp [List.takeWhile_append_dropWhile], Or.inl ⟨hst, takeWhile_all_mem cs⟩⟩
    · simp only [hst, Bool.false_eq_true, if_false] at h
      by_cases hu : c = '_'
      · subst hu
        simp only [if_true] at h
        cases ht : cs.takeWhile cc.isCont with
        | nil => simp [ht] at h
        | cons d ds =>
          simp only [ht, Option.some.injEq, Prod.mk.injEq] at h
          obtain ⟨rfl, rfl⟩ := h
          refine ⟨?_, Or.inr ⟨rfl, by simp, ?_⟩⟩
          · have := List.takeWhile_append_dropWhile (p := cc.isCont) (l := cs)
            rw [ht] at this
            simp [this]
          · intro x hx; exact takeWhile_all_mem cs x (ht ▸ hx)
      · simp [hu] at h

theorem integer_inv {s r : List Char} {n : Nat} (h : integer s = some (r, n)) :
    ∃ ds, s = ds ++ r ∧ IsIndex ds ∧ n = digitsVal ds := by
  unfold integer at h
  cases ht : s.takeWhile isDigit with
  | nil => simp [ht] at h
  | cons d ds =>
    simp only [ht] at h
    split at h
    · rename_i hle
      simp only [Option.some.injEq, Prod.mk.injEq] at h
      obtain ⟨rfl, rfl⟩ := h
      refine ⟨d :: ds, ?_, ⟨by simp, ?_, hle⟩, rfl⟩
      · have := List.takeWhile_append_dropWhile (p := isDigit) (l := s)
        rw [ht] at this; exact this.symm
      · intro x hx; exact takeWhile_all_mem s x (ht ▸ hx)
    · simp at h

theorem argument_inv (cc : CharClasses) {s r : List Char} {a : Arg} (h : argument cc s = some (r, a)) :
    ∃ aa : ArgA, s = aa.render ++ r ∧ aa.WF cc ∧ aa.toArg = a := by
  unfold argument at h
  cases hi : identifier cc s with
  | some p =>
    obtain ⟨r', i⟩ := p
    simp only [hi, Option.some.injEq, Prod.mk.injEq] at h
    obtain ⟨rfl, rfl⟩ := h
    obtain ⟨e, w⟩ := identifier_inv cc hi
    exact ⟨.name i, e, w, rfl⟩
  | none =>
    simp only [hi] at h
    cases hn : integer s with
    | none => simp [hn] at h
    | some p =>
      obtain ⟨r', n⟩ := p
      simp only [hn, Option.some.injEq, Prod.mk.injEq] at h
      obtain ⟨rfl, rfl⟩ := h
      obtain ⟨ds, e, w, rfl⟩ := integer_inv hn
      exact ⟨.idx ds, e, w, rfl⟩

theorem parameter_inv (cc : CharClasses) {s r : List Char} {a : Arg} (h : parameter cc s = some (r, a)) :
    ∃ aa : ArgA, s = aa.render ++ '$' :: r ∧ aa.WF cc ∧ aa.toArg = a := by
  unfold parameter at h
  split at h
  · next r' a' heq =>
    simp only [Option.some.injEq, Prod.mk.injEq] at h
    obtain ⟨rfl, rfl⟩ := h
    exact argument_inv cc heq
  · simp at h

theorem count_inv (cc : CharClasses) {s r : List Char} {c : Count} (h : count cc s = some (r, c)) :
    ∃ ca : CountA, s = ca.render ++ r ∧ ca.WF cc ∧ ca.toCount = c := by
  unfold count at h
  cases hp : parameter cc s with
  | some p =>
    obtain ⟨r', a⟩ := p
    simp only [hp, Option.some.injEq, Prod.mk.injEq] at h
    obtain ⟨rfl, rfl⟩ := h
    obtain ⟨aa, e, w, rfl⟩ := parameter_inv cc hp
    exact ⟨.param aa, by simp [CountA.render, e], w, rfl⟩
  | none =>
    simp only [hp] at h
    cases hn : integer s with
    | none => simp [hn] at h
    | some p =>
      obtain ⟨r', n⟩ := p
      simp only [hn, Option.some.injEq, Prod.mk.injEq] at h
      obtain ⟨rfl, rfl⟩ := h
      obtain ⟨ds, e, w, rfl⟩ := integer_inv hn
      exact ⟨.lit ds, e, w, rfl⟩

theorem precision_inv (cc : CharClasses) {s r : List Char} {p : Precision} (h : precision cc s = some (r, p)) :
    ∃ pa : PrecA, s = pa.render ++ r ∧ pa.WF cc ∧ pa.toPrec = p := by
  unfold precision at h
  cases hc : count cc s with
  | some q =>
    obtain ⟨r', c⟩ := q
    simp only [hc, Option.some.injEq, Prod.mk.injEq] at h
    obtain ⟨rfl, rfl⟩ := h
    obtain ⟨ca, e, w, rfl⟩ := count_inv cc hc
    exact ⟨.count ca, e, w, rfl⟩
  | none =>
    simp only [hc] at h
    split at h
    · next r' =>
      simp only [Option.some.injEq, Prod.mk.injEq] at h
      obtain ⟨rfl, rfl⟩ := h
      exact ⟨.star, rfl, trivial, rfl⟩
    · simp at h

/-! ### The stages of `format_spec` -/

theorem alignOf_some {c : Char} {a : Align} (h : alignOf c = some a) : c = a.render := by
  unfold alignOf at h
  split at h
  · rename_i e; cases h; exact e
  · split at h
    · rename_i e; cases h; exact e
    · split at h
      · rename_i e; cases h; exact e
      · cases h

theorem fillAlign_inv {s r : List Char} {al : Option (Option Char × Align)} (h : fillAlign s = (r, al)) :
    ∃ (fill : Option Char) (align : Option Align),
      s = (match align with
           | some a => (match fill with | some f => [f] | none => []) ++ [a.render]
           | none => []) ++ r
      ∧ al = align.map (fun a => (fill, a)) ∧ (fill.isSome → align.isSome) := by
  unfold fillAlign at h
  split at h
  · next f a t =>
    cases ha : alignOf a with
    | some x =>
      simp only [ha, Prod.mk.injEq] at h
      obtain ⟨rfl, rfl⟩ := h
      exact ⟨some f, some x, by simp [alignOf_some ha], rfl, fun _ => rfl⟩
    | none =>
      simp only [ha] at h
      cases hf : alignOf f with
      | some x =>
        simp only [hf, Prod.mk.injEq] at h
        obtain ⟨rfl, rfl⟩ := h
        exact ⟨none, some x, by simp [alignOf_some hf], rfl, fun h => by cases h⟩
      | none =>
        simp only [hf, Prod.mk.injEq] at h
        obtain ⟨rfl, rfl⟩ := h
        exact ⟨none, none, rfl, rfl, fun h => by cases h⟩
  · next f =>
    cases hf : alignOf f with
    | some x =>
      simp only [hf, Prod.mk.injEq] at h
      obtain ⟨rfl, rfl⟩ := h
      exact ⟨none, some x, by simp [alignOf_some hf], rfl, fun h => by cases h⟩
    | none =>
      simp only [hf, Prod.mk.injEq] at h
      obtain ⟨rfl, rfl⟩ := h
      exact ⟨none, none, rfl, rfl, fun h => by cases h⟩
  · simp only [Prod.mk.injEq] at h
    obtain ⟨rfl, rfl⟩ := h
    exact ⟨none, none, rfl, rfl, fun h => by cases h⟩

theorem signOf_inv {s r : List Char} {sg : Option Sign} (h : signOf s = (r, sg)) :
    s = optRender (fun g => [Sign.render g]) sg ++ r := by
  unfold signOf at h
  split at h <;> (simp only [Prod.mk.injEq] at h; obtain ⟨rfl, rfl⟩ := h; rfl)

theorem altOf_inv {s r : List Char} {b : Bool} (h : altOf s = (r, b)) : s = (if b then ['#'] else []) ++ r := by
  unfold altOf at h
  split at h <;> (simp only [Prod.mk.injEq] at h; obtain ⟨rfl, rfl⟩ := h; rfl)

theorem zeroOf_inv {s r : List Char} {b : Bool} (h : zeroOf s = (r, b)) : s = (if b then ['0'] else []) ++ r := by
  unfold zeroOf at h
  split at h
  · next c t =>
    split at h <;> (simp only [Prod.mk.injEq] at h; obtain ⟨rfl, rfl⟩ := h; rfl)
  · simp only [Prod.mk.injEq] at h; obtain ⟨rfl, rfl⟩ := h; rfl

theorem type_inv (cc : CharClasses) {s r : List Char} {ty : Ty} (h : type_ cc s = some (r, ty)) : s = ty.render ++ r := by
  unfold type_ at h
  split at h <;> first
    | (simp only [Option.some.injEq, Prod.mk.injEq] at h; obtain ⟨rfl, rfl⟩ := h; rfl)
    | (split at h
       · simp only [Option.some.injEq, Prod.mk.injEq] at h; obtain ⟨rfl, rfl⟩ := h; rfl
       · cases h)

/-- Lexical well-formedness of a spec derivation (everything of `SpecA.WF` but the canonical choice about `0`). -/
structure SpecA.Lex (cc : CharClasses) (s : SpecA) : Prop where
  fill_needs_align : s.fill.isSome → s.align.isSome
  width : ∀ w, s.width = some w → w.WF cc
  prec : ∀ p, s.prec = some p → p.WF cc

/-- The width stage of `format_spec`, named. -/
def widthStage (cc : CharClasses) (s4 : List Char) : List Char × Option Count :=
  match count cc s4 with
  | some (r, c) => (r, some c)
  | none => (s4, none)

/-- The precision stage of `format_spec`, named. -/
def precStage (cc : CharClasses) (s5 : List Char) : Option (List Char × Option Precision) :=
  match s5 with
  | '.' :: r =>
    match precision cc r with
    | some (r', p) => some (r', some p)
    | none => none
  | _ => some (s5, none)

theorem formatSpec_eq (cc : CharClasses) (s : List Char) :
    formatSpec cc s =
      match precStage cc (widthStage cc (zeroOf (altOf (signOf (fillAlign s).1).1).1).1).1 with
      | none => none
      | some (s6, p) =>
        match type_ cc s6 with
        | none => none
        | some (s7, ty) =>
          some (s7, { align := (fillAlign s).2, sign := (signOf (fillAlign s).1).2,
                      alt := (altOf (signOf (fillAlign s).1).1).2,
                      zero := (zeroOf (altOf (signOf (fillAlign s).1).1).1).2,
                      width := (widthStage cc (zeroOf (altOf (signOf (fillAlign s).1).1).1).1).2, prec := p, ty := ty }) := by
  rfl

theorem widthStage_inv (cc : CharClasses) {s4 s5 : List Char} {w : Option Count} (h : widthStage cc s4 = (s5, w)) :
    ∃ wa : Option CountA, s4 = optRender CountA.render wa ++ s5 ∧ wa.map CountA.toCount = w ∧ (∀ x, wa = some x → x.WF cc) := by
  unfold widthStage at h
  cases hc : count cc s4 with
  | none =>
    simp only [hc, Prod.mk.injEq] at h
    obtain ⟨rfl, rfl⟩ := h
    exact ⟨none, rfl, rfl, fun x hx => by cases hx⟩
  | some q =>
    obtain ⟨r5, c⟩ := q
    simp only [hc, Prod.mk.injEq] at h
    obtain ⟨rfl, rfl⟩ := h
    obtain ⟨ca, e, wf, rfl⟩ := count_inv cc hc
    exact ⟨some ca, e, rfl, fun x hx => by cases hx; exact wf⟩

theorem precStage_inv (cc : CharClasses) {s5 s6 : List Char} {p : Option Precision} (h : precStage cc s5 = some (s6, p)) :
    ∃ pa : Option PrecA, s5 = (match pa with | some q => '.' :: q.render | none => []) ++ s6 ∧ pa.map PrecA.toPrec = p
      ∧ (∀ x, pa = some x → x.WF cc) := by
  unfold precStage at h
  split at h
  · next r' =>
    cases hp : precision cc r' with
    | none => simp [hp] at h
    | some q =>
      obtain ⟨r6, pr⟩ := q
      simp only [hp, Option.some.injEq, Prod.mk.injEq] at h
      obtain ⟨rfl, rfl⟩ := h
      obtain ⟨pa, e, wf, rfl⟩ := precision_inv cc hp
      exact ⟨some pa, by simp [e], rfl, fun x hx => by cases hx; exact wf⟩
  · simp only [Option.some.injEq, Prod.mk.injEq] at h
    obtain ⟨rfl, rfl⟩ := h
    exact ⟨none, rfl, rfl, fun x hx => by cases hx⟩

theorem formatSpec_inv (cc : CharClasses) {s r : List Char} {sp : Spec} (h : formatSpec cc s = some (r, sp)) :
    ∃ sa : SpecA, s = sa.render ++ r ∧ sa.toSpec = sp ∧ sa.Lex cc := by
  rw [formatSpec_eq] at h
  cases h1 : fillAlign s with | mk s1 al =>
  cases h2 : signOf s1 with | mk s2 sg =>
  cases h3 : altOf s2 with | mk s3 alt =>
  cases h4 : zeroOf s3 with | mk s4 zp =>
  cases h5 : widthStage cc s4 with | mk s5 w =>
  simp only [h1, h2, h3, h4, h5] at h
  cases h6 : precStage cc s5 with
  | none => simp [h6] at h
  | some q =>
    obtain ⟨s6, p⟩ := q
    simp only [h6] at h
    cases h7 : type_ cc s6 with
    | none => simp [h7] at h
    | some q7 =>
      obtain ⟨s7, ty⟩ := q7
      simp only [h7, Option.some.injEq, Prod.mk.injEq] at h
      obtain ⟨rfl, rfl⟩ := h
      obtain ⟨fill, align, e1, hal, hfa⟩ := fillAlign_inv h1
      have e2 := signOf_inv h2
      have e3 := altOf_inv h3
      have e4 := zeroOf_inv h4
      obtain ⟨wa, e5, hw, hwwf⟩ := widthStage_inv cc h5
      obtain ⟨pa, e6, hp, hpwf⟩ := precStage_inv cc h6
      have e7 := type_inv cc h7
      refine ⟨{ fill := fill, align := align, sign := sg, alt := alt, zero := zp, width := wa, prec := pa, ty := ty }, ?_, ?_, ?_⟩
      · rw [e1, e2, e3, e4, e5, e6, e7]
        cases align <;> cases fill <;> cases pa <;>
          simp [SpecA.render, SpecA.renderFillAlign, SpecA.renderWidth, SpecA.renderPrec, List.append_assoc]
      · simp only [SpecA.toSpec, hal, hw, hp]
      · exact ⟨hfa, hwwf, hpwf⟩

/-! ### Placeholders, pieces, literals -/

def argStage (cc : CharClasses) (s0 : List Char) : List Char × Option Arg :=
  match argument cc s0 with
  | some (r, a) => (r, some a)
  | none => (s0, none)

def specStage (cc : CharClasses) (s1 : List Char) : Option (List Char × Option Spec) :=
  match s1 with
  | ':' :: r =>
    match formatSpec cc r with
    | some (r', sp) => some (r', some sp)
    | none => none
  | _ => some (s1, none)

theorem format_eq (cc : CharClasses) (s : List Char) :
    format cc s =
      match s with
      | '{' :: s0 =>
        match specStage cc (argStage cc s0).1 with
        | none => none
        | some (s2, spec) =>
          match skipWs cc s2 with
          | '}' :: r => some (r, { arg := (argStage cc s0).2, spec := spec })
          | _ => none
      | _ => none := by
  cases s with
  | nil => rfl
  | cons c t => rfl

structure PhA.Lex (cc : CharClasses) (p : PhA) : Prop where
  arg : ∀ a, p.arg = some a → a.WF cc
  spec : ∀ s, p.spec = some s → s.Lex cc
  ws : ∀ c ∈ p.ws, cc.isWs c = true

def Piece.Lex (cc : CharClasses) : Piece → Prop
  | .text cs => cs ≠ [] ∧ ∀ c ∈ cs, isBrace c = false
  | .lbrace => True
  | .rbrace => True
  | .ph p => p.Lex cc

theorem format_inv (cc : CharClasses) {s r : List Char} {f : Format} (h : format cc s = some (r, f)) :
    ∃ p : PhA, s = p.render ++ r ∧ p.toFormat = f ∧ p.Lex cc := by
  rw [format_eq] at h
  split at h
  · next s0 =>
    cases h1 : argStage cc s0 with | mk s1 arg =>
    simp only [h1] at h
    cases h2 : specStage cc s1 with
    | none => simp [h2] at h
    | some q =>
      obtain ⟨s2, spec⟩ := q
      simp only [h2] at h
      split at h
      · next r' hsk =>
        simp only [Option.some.injEq, Prod.mk.injEq] at h
        obtain ⟨rfl, rfl⟩ := h
        -- argument
        obtain ⟨aa, ea, haa, hawf⟩ : ∃ aa : Option ArgA, s0 = optRender ArgA.render aa ++ s1 ∧ aa.map ArgA.toArg = arg ∧
            (∀ a, aa = some a → a.WF cc) := by
          unfold argStage at h1
          cases hg : argument cc s0 with
          | none =>
            simp only [hg, Prod.mk.injEq] at h1
            obtain ⟨rfl, rfl⟩ := h1
            exact ⟨none, rfl, rfl, fun a ha => by cases ha⟩
          | some q =>
            obtain ⟨r1, a⟩ := q
            simp only [hg, Prod.mk.injEq] at h1
            obtain ⟨rfl, rfl⟩ := h1
            obtain ⟨aa, e, wf, rfl⟩ := argument_inv cc hg
            exact ⟨some aa, e, rfl, fun a ha => by cases ha; exact wf⟩
        -- spec
        obtain ⟨sa, es, hsa, hswf⟩ : ∃ sa : Option SpecA, s1 = (match sa with | some x => ':' :: x.render | none => []) ++ s2 ∧
            sa.map SpecA.toSpec = spec ∧ (∀ x, sa = some x → x.Lex cc) := by
          unfold specStage at h2
          split at h2
          · next rr =>
            cases hf : formatSpec cc rr with
            | none => simp [hf] at h2
            | some q =>
              obtain ⟨r2, sp⟩ := q
              simp only [hf, Option.some.injEq, Prod.mk.injEq] at h2
              obtain ⟨rfl, rfl⟩ := h2
              obtain ⟨x, e, rfl, lx⟩ := formatSpec_inv cc hf
              exact ⟨some x, by simp [e], rfl, fun y hy => by cases hy; exact lx⟩
          · simp only [Option.some.injEq, Prod.mk.injEq] at h2
            obtain ⟨rfl, rfl⟩ := h2
            exact ⟨none, rfl, rfl, fun y hy => by cases hy⟩
        -- whitespace
        have ews : s2 = s2.takeWhile cc.isWs ++ '}' :: r' := by
          have := List.takeWhile_append_dropWhile (p := cc.isWs) (l := s2)
          unfold skipWs at hsk
          rw [hsk] at this
          exact this.symm
        refine ⟨{ arg := aa, spec := sa, ws := s2.takeWhile cc.isWs }, ?_, ?_, ?_⟩
        · rw [ea, es]
          conv => lhs; rw [ews]
          cases sa <;> simp [PhA.render, List.append_assoc]
        · simp only [PhA.toFormat, haa, hsa]
        · exact ⟨hawf, hswf, takeWhile_all_mem s2⟩
      · cases h
  · cases h

theorem maybeFormat_inv (cc : CharClasses) {s r : List Char} {f : Option Format} (h : maybeFormat cc s = some (r, f)) :
    ∃ q : Piece, s = q.render ++ r ∧ q.Lex cc ∧ (∀ cs, q ≠ .text cs) ∧
      f = (match q with | .ph p => some p.toFormat | _ => none) := by
  unfold maybeFormat at h
  split at h
  · next r' =>
    simp only [Option.some.injEq, Prod.mk.injEq] at h
    obtain ⟨rfl, rfl⟩ := h
    exact ⟨.lbrace, rfl, trivial, (fun cs e => by cases e), rfl⟩
  · next r' =>
    simp only [Option.some.injEq, Prod.mk.injEq] at h
    obtain ⟨rfl, rfl⟩ := h
    exact ⟨.rbrace, rfl, trivial, (fun cs e => by cases e), rfl⟩
  · cases hf : format cc s with
    | none => simp [hf] at h
    | some q =>
      obtain ⟨r', fm⟩ := q
      simp only [hf, Option.some.injEq, Prod.mk.injEq] at h
      obtain ⟨rfl, rfl⟩ := h
      obtain ⟨p, e, rfl, lx⟩ := format_inv cc hf
      exact ⟨.ph p, e, lx, (fun cs e => by cases e), rfl⟩

theorem text_inv {s r t : List Char} (h : text s = some (r, t)) : s = t ++ r ∧ t ≠ [] ∧ ∀ c ∈ t, isBrace c = false := by
  unfold text at h
  cases ht : s.takeWhile (fun c => !isBrace c) with
  | nil => simp [ht] at h
  | cons d ds =>
    simp only [ht, Option.some.injEq, Prod.mk.injEq] at h
    obtain ⟨rfl, rfl⟩ := h
    refine ⟨?_, by simp, ?_⟩
    · have := List.takeWhile_append_dropWhile (p := fun c => !isBrace c) (l := s)
      rw [ht] at this; exact this.symm
    · intro c hc
      have := takeWhile_all_mem (p := fun c => !isBrace c) s c (ht ▸ hc)
      simpa using this

/-- **Whatever the loop of `format_string` consumes is the print of a derivation**, and the formats it returns are
that derivation's. -/
theorem formatLoop_inv (cc : CharClasses) : ∀ (fuel : Nat) (s : List Char) (fs : List Format) (r : List Char),
    formatLoop cc fuel s = (fs, r) →
      ∃ ps : List Piece, s = renderAll ps ++ r ∧ formatsOf ps = fs ∧ ∀ p ∈ ps, p.Lex cc := by
  intro fuel
  induction fuel with
  | zero =>
    intro s fs r h
    simp only [formatLoop, Prod.mk.injEq] at h
    obtain ⟨rfl, rfl⟩ := h
    exact ⟨[], rfl, rfl, fun p hp => by cases hp⟩
  | succ n ih =>
    intro s fs r h
    unfold formatLoop at h
    cases hm : maybeFormat cc s with
    | some q =>
      obtain ⟨r1, f⟩ := q
      simp only [hm] at h
      cases hl : formatLoop cc n r1 with | mk fs' r' =>
      simp only [hl, Prod.mk.injEq] at h
      obtain ⟨hfs, rfl⟩ := h
      obtain ⟨ps, e, hf, hlx⟩ := ih r1 fs' r' hl
      obtain ⟨q, eq, qlx, _, hfq⟩ := maybeFormat_inv cc hm
      refine ⟨q :: ps, ?_, ?_, ?_⟩
      · rw [eq, e]; simp [renderAll, List.append_assoc]
      · rw [← hfs, hfq]
        cases q <;> simp [formatsOf, hf]
      · intro p hp
        rcases List.mem_cons.mp hp with rfl | hp
        · exact qlx
        · exact hlx p hp
    | none =>
      simp only [hm] at h
      cases ht : text s with
      | none =>
        simp only [ht, Prod.mk.injEq] at h
        obtain ⟨rfl, rfl⟩ := h
        exact ⟨[], rfl, rfl, fun p hp => by cases hp⟩
      | some q =>
        obtain ⟨r1, t⟩ := q
        simp only [ht] at h
        obtain ⟨ps, e, hf, hlx⟩ := ih r1 fs r h
        obtain ⟨et, hne, hnb⟩ := text_inv ht
        refine ⟨.text t :: ps, ?_, ?_, ?_⟩
        · rw [et, e]; simp [renderAll, Piece.render, List.append_assoc]
        · simp [formatsOf, hf]
        · intro p hp
          rcases List.mem_cons.mp hp with rfl | hp
          · exact ⟨hne, hnb⟩
          · exact hlx p hp

/-- **Every literal the parser accepts is the print of a derivation of the std grammar, read as that derivation.** -/
theorem formatString_inv (cc : CharClasses) {s : List Char} {fs : List Format} (h : formatString cc s = some fs) :
    ∃ ps : List Piece, s = renderAll ps ∧ formatsOf ps = fs ∧ ∀ p ∈ ps, p.Lex cc := by
  unfold formatString at h
  cases ht : text s with
  | none =>
    simp only [ht] at h
    cases hl : formatLoop cc (s.length + 1) s with | mk fs' r =>
    simp only [hl] at h
    cases r with
    | nil =>
      simp only [Option.some.injEq] at h
      subst h
      obtain ⟨ps, e, hf, hlx⟩ := formatLoop_inv cc _ s fs' [] hl
      exact ⟨ps, by simpa using e, hf, hlx⟩
    | cons c t => simp at h
  | some q =>
    obtain ⟨s0, t⟩ := q
    simp only [ht] at h
    cases hl : formatLoop cc (s0.length + 1) s0 with | mk fs' r =>
    simp only [hl] at h
    cases r with
    | nil =>
      simp only [Option.some.injEq] at h
      subst h
      obtain ⟨ps, e, hf, hlx⟩ := formatLoop_inv cc _ s0 fs' [] hl
      obtain ⟨et, hne, hnb⟩ := text_inv ht
      refine ⟨.text t :: ps, ?_, ?_, ?_⟩
      · rw [et, e]; simp [renderAll, Piece.render]
      · simp [formatsOf, hf]
      · intro p hp
        rcases List.mem_cons.mp hp with rfl | hp
        · exact ⟨hne, hnb⟩
        · exact hlx p hp
    | cons c t' => simp at h

end Dm.Fmt

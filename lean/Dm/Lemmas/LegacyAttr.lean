import Dm.Model.LegacyAttr

/-
Denotation of the legacy attribute parser: a parameter list either is malformed whatever the state
(`none`) or stands for a list of atomic set-once actions. The parser equals "apply the atoms in order"
(`parseMetas_eq`), from which order-independence, duplicate / contradiction rejection and rejection of
unknown parameters follow.
-/
namespace Dm.Legacy

inductive Flag where
  | forward | owned | ref | refMut | source | backtrace
  deriving Repr, DecidableEq, Inhabited

def Flag.slot : Flag → Slot
  | .forward => .forward | .owned => .owned | .ref => .ref | .refMut => .refMut
  | .source => .source | .backtrace => .backtrace

theorem Flag.slot_ne_enabled (f : Flag) : f.slot ≠ .enabled := by cases f <;> simp [Flag.slot]
theorem Flag.slot_inj {f g : Flag} (h : f.slot = g.slot) : f = g := by
  cases f <;> cases g <;> simp [Flag.slot] at h ⊢

inductive Atom where
  | ignore
  | flag (f : Flag) (v : Bool)
  deriving Repr, DecidableEq, Inhabited

def Atom.slot : Atom → Slot
  | .ignore => .enabled
  | .flag f _ => f.slot

def applyAtom : Atom → Info → Except Unit Info
  | .ignore, i => setIgnore i
  | .flag f v, i => setOnce i f.slot v

def applyAtoms : List Atom → Info → Except Unit Info
  | [], i => pure i
  | a :: rest, i =>
    match applyAtom a i with
    | .ok i' => applyAtoms rest i'
    | .error e => .error e

def pathAtom : Wrapper → Name → Option Atom
  | .none, .ignore => some .ignore
  | .none, .forward => some (.flag .forward true)
  | .not, .forward => some (.flag .forward false)
  | .none, .owned => some (.flag .owned true)
  | .none, .ref => some (.flag .ref true)
  | .none, .refMut => some (.flag .refMut true)
  | .none, .source => some (.flag .source true)
  | .not, .source => some (.flag .source false)
  | .none, .backtrace => some (.flag .backtrace true)
  | .not, .backtrace => some (.flag .backtrace false)
  | _, _ => none

theorem pathAction_eq (w : Wrapper) (n : Name) (i : Info) :
    pathAction w n i = match pathAtom w n with
      | some a => applyAtom a i
      | none => .error () := by
  cases w <;> cases n <;> simp [pathAction, pathAtom, applyAtom, Flag.slot, throw, throwThe, MonadExceptOf.throw]

mutual
  def den (allowed : List Name) (w : Wrapper) : Meta → Option (List Atom)
    | .notList args => if w ≠ .none then none else denList allowed .not args
    | .list n args =>
      if !allowed.contains n then none else
      match w, n with
      | .none, .owned => (denList allowed (.named .owned) args).map (Atom.flag .owned true :: ·)
      | .none, .ref => (denList allowed (.named .ref) args).map (Atom.flag .ref true :: ·)
      | .none, .refMut => (denList allowed (.named .refMut) args).map (Atom.flag .refMut true :: ·)
      | _, _ => none
    | .path n => if !allowed.contains n then none else (pathAtom w n).map ([·])
  def denList (allowed : List Name) (w : Wrapper) : List Meta → Option (List Atom)
    | [] => some []
    | m :: rest =>
      match den allowed w m, denList allowed w rest with
      | some a, some b => some (a ++ b)
      | _, _ => none
end

theorem applyAtoms_append (as bs : List Atom) (i : Info) :
    applyAtoms (as ++ bs) i = match applyAtoms as i with
      | .ok i' => applyAtoms bs i'
      | .error e => .error e := by
  induction as generalizing i with
  | nil => simp [applyAtoms, pure, Except.pure]
  | cons a as ih =>
    simp only [List.cons_append, applyAtoms]
    cases applyAtom a i with
    | ok i' => exact ih i'
    | error e => rfl

/-- what `run` does with a denotation -/
def runDen (d : Option (List Atom)) (i : Info) : Except Unit Info :=
  match d with
  | some as => applyAtoms as i
  | none => .error ()

theorem applyAtoms_error_absorb (as : List Atom) (i : Info) (h : applyAtoms as i = .error ()) :
    ∀ bs, applyAtoms (as ++ bs) i = .error () := by
  intro bs; rw [applyAtoms_append, h]

mutual
  theorem parseMeta_eq (allowed : List Name) (w : Wrapper) :
      (m : Meta) → (i : Info) → parseMeta allowed w m i = runDen (den allowed w m) i
    | .notList args, i => by
      unfold parseMeta den
      by_cases hw : w ≠ .none
      · simp [hw, runDen, throw, throwThe, MonadExceptOf.throw]
      · simp only [hw, if_false]; exact parseMetas_eq allowed .not args i
    | .path n, i => by
      unfold parseMeta den
      by_cases ha : allowed.contains n = true
      · simp only [ha, Bool.not_true, Bool.false_eq_true, if_false]
        rw [pathAction_eq]
        cases pathAtom w n <;> simp [runDen, applyAtoms, pure, Except.pure]
        · next a => cases applyAtom a i <;> rfl
      · have ha' : n ∉ allowed := by simpa using ha
        simp [ha', runDen, throw, throwThe, MonadExceptOf.throw]
    | .list n args, i => by
      unfold parseMeta den
      by_cases ha : allowed.contains n = true
      · simp only [ha, Bool.not_true, Bool.false_eq_true, if_false]
        have key : ∀ (f : Flag) (nm : Name),
            (match setOnce i f.slot true with
              | .ok i' => parseMetas allowed (.named nm) args i'
              | .error e => .error e) =
            runDen ((denList allowed (.named nm) args).map (Atom.flag f true :: ·)) i := by
          intro f nm
          cases hs : setOnce i f.slot true with
          | error e =>
            cases denList allowed (.named nm) args <;> simp [runDen, applyAtoms, applyAtom, hs]
          | ok i' =>
            simp only []
            rw [parseMetas_eq allowed (.named nm) args i']
            cases denList allowed (.named nm) args <;> simp [runDen, applyAtoms, applyAtom, hs]
        cases w <;> cases n <;>
          first
          | exact key .owned .owned
          | exact key .ref .ref
          | exact key .refMut .refMut
          | simp [runDen, throw, throwThe, MonadExceptOf.throw]
      · have ha' : n ∉ allowed := by simpa using ha
        simp [ha', runDen, throw, throwThe, MonadExceptOf.throw]
  theorem parseMetas_eq (allowed : List Name) (w : Wrapper) :
      (ms : List Meta) → (i : Info) → parseMetas allowed w ms i = runDen (denList allowed w ms) i
    | [], i => by simp [parseMetas, denList, runDen, applyAtoms]
    | m :: rest, i => by
      unfold parseMetas denList
      rw [parseMeta_eq allowed w m i]
      cases hd : den allowed w m with
      | none => simp [runDen]
      | some a =>
        simp only [runDen]
        cases ha : applyAtoms a i with
        | error e =>
          cases denList allowed w rest with
          | none => rfl
          | some b => simp only []; rw [applyAtoms_append, ha]
        | ok i' =>
          simp only []
          rw [parseMetas_eq allowed w rest i']
          cases denList allowed w rest with
          | none => rfl
          | some b => simp only [runDen]; rw [applyAtoms_append, ha]
end

end Dm.Legacy

namespace Dm.Legacy

theorem Info.set_comm (i : Info) {s t : Slot} (h : s ≠ t) (v u : Bool) :
    (i.set s v).set t u = (i.set t u).set s v := by
  funext x
  simp only [Info.set]
  by_cases hx : x = t <;> by_cases hy : x = s
  · subst hx; subst hy; exact (h rfl).elim
  · subst hx; simp [Ne.symm h]
  · subst hy; simp [h]
  · simp [hx, hy]

theorem Info.set_other (i : Info) {s t : Slot} (h : t ≠ s) (v : Bool) : (i.set s v) t = i t := by
  simp [Info.set, h]

theorem Info.set_same (i : Info) (s : Slot) (v : Bool) : (i.set s v) s = some v := by
  simp [Info.set]

/-- two atoms on the same slot: the second one is always refused -/
theorem applyAtom_same_slot {a b : Atom} (h : a.slot = b.slot) {i i' : Info} (ha : applyAtom a i = .ok i') :
    applyAtom b i' = .error () := by
  cases a with
  | ignore =>
    cases b with
    | ignore =>
      simp only [applyAtom, setIgnore] at ha ⊢
      split at ha
      · cases ha
      · cases ha; simp [Info.set_same, throw, throwThe, MonadExceptOf.throw]
    | flag g u => exact absurd h.symm (Flag.slot_ne_enabled g)
  | flag f v =>
    cases b with
    | ignore => exact absurd h (Flag.slot_ne_enabled f)
    | flag g u =>
      simp only [Atom.slot] at h
      simp only [applyAtom, setOnce] at ha ⊢
      split at ha
      · cases ha
      · cases ha; rw [← h]; simp [Info.set_same, throw, throwThe, MonadExceptOf.throw]

/-- adjacent atoms commute -/
theorem applyAtoms_swap (a b : Atom) (rest : List Atom) (i : Info) :
    applyAtoms (a :: b :: rest) i = applyAtoms (b :: a :: rest) i := by
  by_cases hs : a.slot = b.slot
  · -- same slot: both orders fail
    have e1 : applyAtoms (a :: b :: rest) i = .error () := by
      simp only [applyAtoms]
      cases ha : applyAtom a i with
      | error e => rfl
      | ok i' => simp only []; rw [applyAtom_same_slot hs ha]
    have e2 : applyAtoms (b :: a :: rest) i = .error () := by
      simp only [applyAtoms]
      cases hb : applyAtom b i with
      | error e => rfl
      | ok i' => simp only []; rw [applyAtom_same_slot hs.symm hb]
    rw [e1, e2]
  · -- different slots: independent
    simp only [applyAtoms]
    cases a with
    | ignore =>
      cases b with
      | ignore => exact (hs rfl).elim
      | flag g u =>
        have hne : g.slot ≠ Slot.enabled := Flag.slot_ne_enabled g
        simp only [applyAtom, setIgnore, setOnce]
        by_cases h1 : i .enabled = some false <;> by_cases h2 : (i g.slot).isSome = true <;>
          simp [h1, h2, Info.set_other, hne, hne.symm, Info.set_comm, throw, throwThe, MonadExceptOf.throw, pure, Except.pure]
    | flag f v =>
      cases b with
      | ignore =>
        have hne : f.slot ≠ Slot.enabled := Flag.slot_ne_enabled f
        simp only [applyAtom, setIgnore, setOnce]
        by_cases h1 : i .enabled = some false <;> by_cases h2 : (i f.slot).isSome = true <;>
          simp [h1, h2, Info.set_other, hne, hne.symm, throw, throwThe, MonadExceptOf.throw, pure, Except.pure]
        · rw [Info.set_comm i hne]
      | flag g u =>
        have hne : f.slot ≠ g.slot := hs
        simp only [applyAtom, setOnce]
        by_cases h1 : (i f.slot).isSome = true <;> by_cases h2 : (i g.slot).isSome = true <;>
          simp [h1, h2, Info.set_other, hne, hne.symm, throw, throwThe, MonadExceptOf.throw, pure, Except.pure]
        · rw [Info.set_comm i hne]

theorem applyAtoms_perm {as bs : List Atom} (h : as.Perm bs) (i : Info) :
    applyAtoms as i = applyAtoms bs i := by
  induction h generalizing i with
  | nil => rfl
  | cons a _ ih =>
    simp only [applyAtoms]
    cases applyAtom a i with
    | error e => rfl
    | ok i' => exact ih i'
  | swap a b l => exact applyAtoms_swap b a l i
  | trans _ _ ih1 ih2 => rw [ih1, ih2]

theorem denList_append (allowed : List Name) (w : Wrapper) (xs ys : List Meta) :
    denList allowed w (xs ++ ys) =
      match denList allowed w xs, denList allowed w ys with
      | some a, some b => some (a ++ b)
      | _, _ => none := by
  induction xs with
  | nil => cases h : denList allowed w ys <;> simp [denList, h]
  | cons x xs ih =>
    simp only [List.cons_append, denList, ih]
    cases den allowed w x <;> cases denList allowed w xs <;> cases denList allowed w ys <;> simp

theorem denList_perm (allowed : List Name) (w : Wrapper) {ms ms' : List Meta} (h : ms.Perm ms') :
    (denList allowed w ms = none ∧ denList allowed w ms' = none) ∨
    (∃ as bs, denList allowed w ms = some as ∧ denList allowed w ms' = some bs ∧ as.Perm bs) := by
  induction h with
  | nil => exact Or.inr ⟨[], [], rfl, rfl, List.Perm.refl _⟩
  | cons m _ ih =>
    simp only [denList]
    cases hm : den allowed w m with
    | none => exact Or.inl ⟨by simp, by simp⟩
    | some a =>
      rcases ih with ⟨h1, h2⟩ | ⟨as, bs, h1, h2, hp⟩
      · exact Or.inl ⟨by simp [h1], by simp [h2]⟩
      · exact Or.inr ⟨a ++ as, a ++ bs, by simp [h1], by simp [h2], List.Perm.append_left a hp⟩
  | swap m n l =>
    simp only [denList]
    cases hm : den allowed w m with
    | none => exact Or.inl ⟨by cases den allowed w n <;> simp, by simp⟩
    | some a =>
      cases hn : den allowed w n with
      | none => exact Or.inl ⟨by simp, by cases denList allowed w l <;> simp⟩
      | some b =>
        cases hl : denList allowed w l with
        | none => exact Or.inl ⟨by simp, by simp⟩
        | some c =>
          refine Or.inr ⟨b ++ (a ++ c), a ++ (b ++ c), by simp, by simp, ?_⟩
          simp only [← List.append_assoc]
          exact List.Perm.append_right c List.perm_append_comm
  | trans _ _ ih1 ih2 =>
    rcases ih1 with ⟨h1, h2⟩ | ⟨as, bs, h1, h2, hp⟩
    · rcases ih2 with ⟨h3, h4⟩ | ⟨cs, ds, h3, h4, _⟩
      · exact Or.inl ⟨h1, h4⟩
      · rw [h2] at h3; cases h3
    · rcases ih2 with ⟨h3, h4⟩ | ⟨cs, ds, h3, h4, hq⟩
      · rw [h2] at h3; cases h3
      · rw [h2] at h3; cases h3
        exact Or.inr ⟨as, ds, h1, h4, hp.trans hq⟩

/-- a list of atoms with two atoms on one slot is refused whatever the state -/
theorem applyAtoms_two_same_slot (A M P : List Atom) (a b : Atom) (h : a.slot = b.slot) (i : Info) :
    applyAtoms (A ++ a :: M ++ b :: P) i = .error () := by
  have hp : (A ++ a :: M ++ b :: P).Perm (a :: b :: (A ++ M ++ P)) := by
    have h1 : (A ++ a :: M ++ b :: P).Perm (a :: (A ++ M ++ b :: P)) := by
      simpa [List.append_assoc] using (List.perm_middle (a := a) (l₁ := A) (l₂ := M ++ b :: P))
    have h2 : (A ++ M ++ b :: P).Perm (b :: (A ++ M ++ P)) := by
      simpa using (List.perm_middle (a := b) (l₁ := A ++ M) (l₂ := P))
    exact h1.trans (List.Perm.cons a h2)
  rw [applyAtoms_perm hp]
  simp only [applyAtoms]
  cases ha : applyAtom a i with
  | error e => rfl
  | ok i' => simp only []; rw [applyAtom_same_slot h ha]

theorem den_path (allowed : List Name) (w : Wrapper) (n : Name) :
    den allowed w (.path n) = if allowed.contains n then (pathAtom w n).map ([·]) else none := by
  unfold den; cases allowed.contains n <;> simp

theorem denList_single (allowed : List Name) (w : Wrapper) (m : Meta) :
    denList allowed w [m] = den allowed w m := by
  simp only [denList]; cases den allowed w m <;> simp

theorem den_not_path (allowed : List Name) (n : Name) :
    den allowed .none (.notList [.path n]) = if allowed.contains n then (pathAtom .not n).map ([·]) else none := by
  unfold den
  simp only [ne_eq, not_true_eq_false, if_false]
  rw [denList_single, den_path]

theorem den_unknown (allowed : List Name) (w : Wrapper) (n : Name) (h : allowed.contains n = false) (args : List Meta) :
    den allowed w (.path n) = none ∧ den allowed w (.list n args) = none := by
  constructor
  · rw [den_path, h]; rfl
  · have h' : n ∉ allowed := by simpa using h
    unfold den; simp [h']

theorem denList_single_path_some (allowed : List Name) (w : Wrapper) (n : Name) (as : List Atom)
    (h : denList allowed w [.path n] = some as) : ∃ a, as = [a] ∧ pathAtom w n = some a := by
  rw [denList_single, den_path] at h
  by_cases hc : allowed.contains n = true
  · rw [if_pos hc] at h
    cases hpa : pathAtom w n with
    | none => rw [hpa] at h; cases h
    | some a => rw [hpa] at h; cases h; exact ⟨a, rfl, rfl⟩
  · rw [if_neg hc] at h; cases h

theorem denList_single_not_some (allowed : List Name) (n : Name) (as : List Atom)
    (h : denList allowed .none [.notList [.path n]] = some as) : ∃ a, as = [a] ∧ pathAtom .not n = some a := by
  rw [denList_single, den_not_path] at h
  by_cases hc : allowed.contains n = true
  · rw [if_pos hc] at h
    cases hpa : pathAtom .not n with
    | none => rw [hpa] at h; cases h
    | some a => rw [hpa] at h; cases h; exact ⟨a, rfl, rfl⟩
  · rw [if_neg hc] at h; cases h

end Dm.Legacy

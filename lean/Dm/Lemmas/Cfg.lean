import Dm.Model.CfgGraph

namespace Dm.Cfg

mutual
  theorem eval_mono (fs fs' : Nat → Bool) (h : ∀ n, fs n = true → fs' n = true) :
      (c : Cfg) → positive c = true → eval fs c = true → eval fs' c = true
    | .tt, _, _ => by simp [eval]
    | .ff, _, he => by simp [eval] at he
    | .feat n, _, he => by simp only [eval] at he ⊢; exact h n he
    | .any l, hp, he => by
      simp only [eval, positive] at he hp ⊢
      exact evalAny_mono fs fs' h l hp he
    | .all l, hp, he => by
      simp only [eval, positive] at he hp ⊢
      exact evalAll_mono fs fs' h l hp he
    | .not _, hp, _ => by simp [positive] at hp
  theorem evalAny_mono (fs fs' : Nat → Bool) (h : ∀ n, fs n = true → fs' n = true) :
      (l : List Cfg) → positiveL l = true → evalAny fs l = true → evalAny fs' l = true
    | [], _, he => by simp [evalAny] at he
    | c :: rest, hp, he => by
      simp only [evalAny, positiveL, Bool.and_eq_true, Bool.or_eq_true] at he hp ⊢
      rcases he with he | he
      · exact Or.inl (eval_mono fs fs' h c hp.1 he)
      · exact Or.inr (evalAny_mono fs fs' h rest hp.2 he)
  theorem evalAll_mono (fs fs' : Nat → Bool) (h : ∀ n, fs n = true → fs' n = true) :
      (l : List Cfg) → positiveL l = true → evalAll fs l = true → evalAll fs' l = true
    | [], _, _ => by simp [evalAll]
    | c :: rest, hp, he => by
      simp only [evalAll, positiveL, Bool.and_eq_true] at he hp ⊢
      exact ⟨eval_mono fs fs' h c hp.1 he.1, evalAll_mono fs fs' h rest hp.2 he.2⟩
end

mutual
  theorem dnf_sound (fs : Nat → Bool) :
      (c : Cfg) → positive c = true → eval fs c = true → ∃ A ∈ dnf c, ∀ n ∈ A, fs n = true
    | .tt, _, _ => ⟨[], by simp [dnf], by simp⟩
    | .ff, _, he => by simp [eval] at he
    | .feat n, _, he => ⟨[n], by simp [dnf], by simpa [eval] using he⟩
    | .any l, hp, he => by
      simp only [eval, positive, dnf] at he hp ⊢
      exact dnfAny_sound fs l hp he
    | .all l, hp, he => by
      simp only [eval, positive, dnf] at he hp ⊢
      exact dnfAll_sound fs l hp he
    | .not _, hp, _ => by simp [positive] at hp
  theorem dnfAny_sound (fs : Nat → Bool) :
      (l : List Cfg) → positiveL l = true → evalAny fs l = true → ∃ A ∈ dnfAny l, ∀ n ∈ A, fs n = true
    | [], _, he => by simp [evalAny] at he
    | c :: rest, hp, he => by
      simp only [evalAny, positiveL, Bool.and_eq_true, Bool.or_eq_true] at he hp
      simp only [dnfAny, List.mem_append]
      rcases he with he | he
      · obtain ⟨A, hA, hf⟩ := dnf_sound fs c hp.1 he
        exact ⟨A, Or.inl hA, hf⟩
      · obtain ⟨A, hA, hf⟩ := dnfAny_sound fs rest hp.2 he
        exact ⟨A, Or.inr hA, hf⟩
  theorem dnfAll_sound (fs : Nat → Bool) :
      (l : List Cfg) → positiveL l = true → evalAll fs l = true → ∃ A ∈ dnfAll l, ∀ n ∈ A, fs n = true
    | [], _, _ => ⟨[], by simp [dnfAll], by simp⟩
    | c :: rest, hp, he => by
      simp only [evalAll, positiveL, Bool.and_eq_true] at he hp
      obtain ⟨A, hA, hfA⟩ := dnf_sound fs c hp.1 he.1
      obtain ⟨B, hB, hfB⟩ := dnfAll_sound fs rest hp.2 he.2
      refine ⟨A ++ B, ?_, ?_⟩
      · simp only [dnfAll, List.mem_flatMap, List.mem_map]
        exact ⟨A, hA, B, hB, rfl⟩
      · intro n hn
        rcases List.mem_append.mp hn with h | h
        · exact hfA n h
        · exact hfB n h
end

theorem impliesPos_sound (a b : Cfg) (h : impliesPos a b = true) (fs : Nat → Bool)
    (he : eval fs a = true) : eval fs b = true := by
  simp only [impliesPos, Bool.and_eq_true, List.all_eq_true] at h
  obtain ⟨⟨hpa, hpb⟩, hall⟩ := h
  obtain ⟨A, hA, hf⟩ := dnf_sound fs a hpa he
  refine eval_mono (fun n => A.contains n) fs ?_ b hpb (hall A hA)
  intro n hn
  exact hf n (by simpa using hn)

mutual
  theorem subst_eval (fs : Nat → Bool) (a : Nat) (v : Bool) (hv : fs a = v) :
      (c : Cfg) → eval fs (subst a v c) = eval fs c
    | .tt => rfl
    | .ff => rfl
    | .feat n => by
      simp only [subst]
      split
      · next h => subst h; cases v <;> simp [eval, hv]
      · rfl
    | .any l => by simp only [subst, eval]; exact substAny_eval fs a v hv l
    | .all l => by simp only [subst, eval]; exact substAll_eval fs a v hv l
    | .not c => by simp only [subst, eval, subst_eval fs a v hv c]
  theorem substAny_eval (fs : Nat → Bool) (a : Nat) (v : Bool) (hv : fs a = v) :
      (l : List Cfg) → evalAny fs (substL a v l) = evalAny fs l
    | [] => rfl
    | c :: rest => by simp only [substL, evalAny, subst_eval fs a v hv c, substAny_eval fs a v hv rest]
  theorem substAll_eval (fs : Nat → Bool) (a : Nat) (v : Bool) (hv : fs a = v) :
      (l : List Cfg) → evalAll fs (substL a v l) = evalAll fs l
    | [] => rfl
    | c :: rest => by simp only [substL, evalAll, subst_eval fs a v hv c, substAll_eval fs a v hv rest]
end

mutual
  theorem simp_eval (fs : Nat → Bool) : (c : Cfg) → eval fs (simp c) = eval fs c
    | .tt => rfl
    | .ff => rfl
    | .feat _ => rfl
    | .any l => by simp only [simp, eval]; exact simpAny_eval fs l
    | .all l => by simp only [simp, eval]; exact simpAll_eval fs l
    | .not c => by
      have ih := simp_eval fs c
      simp only [simp]
      split
      · next h => rw [h] at ih; simp [eval] at ih ⊢; exact ih.symm ▸ rfl
      · next h => rw [h] at ih; simp [eval] at ih ⊢; exact ih.symm ▸ rfl
      · simp only [eval, ih]
  theorem simpAny_eval (fs : Nat → Bool) : (l : List Cfg) → evalAny fs (simpL l) = evalAny fs l
    | [] => rfl
    | c :: rest => by simp only [simpL, evalAny, simp_eval fs c, simpAny_eval fs rest]
  theorem simpAll_eval (fs : Nat → Bool) : (l : List Cfg) → evalAll fs (simpL l) = evalAll fs l
    | [] => rfl
    | c :: rest => by simp only [simpL, evalAll, simp_eval fs c, simpAll_eval fs rest]
end

theorem impliesSplit_sound (switches : List Nat) : ∀ (a b : Cfg), impliesSplit switches a b = true →
    ∀ fs : Nat → Bool, eval fs a = true → eval fs b = true := by
  induction switches with
  | nil =>
    intro a b h fs he
    simp only [impliesSplit] at h
    have := impliesPos_sound (simp a) (simp b) h fs (by rw [simp_eval]; exact he)
    rwa [simp_eval] at this
  | cons s rest ih =>
    intro a b h fs he
    simp only [impliesSplit, Bool.and_eq_true] at h
    cases hs : fs s with
    | true =>
      have := ih _ _ h.1 fs (by rw [subst_eval fs s true hs]; exact he)
      rwa [subst_eval fs s true hs] at this
    | false =>
      have := ih _ _ h.2 fs (by rw [subst_eval fs s false hs]; exact he)
      rwa [subst_eval fs s false hs] at this

end Dm.Cfg

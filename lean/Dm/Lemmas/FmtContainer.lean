import Dm.Model.FmtContainer

/- Closed form of the fold over the container attributes of the formatting derives. -/
namespace Dm.FmtContainer

def fmtOf : A → Option (Nat × List Nat)
  | .fmt l as => some (l, as)
  | _ => none

def renameOf : A → Option Case
  | .renameAll (some c) => some c
  | _ => none

def predsOf : A → List Nat
  | .bounds _ ps => ps
  | _ => []

/-- The format literals, the casings and the predicates of an attribute list, in order. -/
def fmts (l : List A) : List (Nat × List Nat) := l.filterMap fmtOf
def renames (l : List A) : List Case := l.filterMap renameOf
def preds (l : List A) : List Nat := (l.map predsOf).flatten

theorem parseOne_some {g : G} {a : A} {n : Parsed} (h : parseOne g a = some n) :
    n = { fmt := fmtOf a, bounds := predsOf a, renameAll := renameOf a } := by
  cases a with
  | fmt l as => simp [parseOne] at h; subst h; rfl
  | bounds k ps =>
    simp only [parseOne] at h
    split at h
    · simp at h
    · simp at h; subst h; rfl
  | renameAll c =>
    cases c with
    | none => simp [parseOne] at h
    | some c =>
      simp only [parseOne] at h
      split at h
      · simp at h; subst h; rfl
      · simp at h
  | legacyFmt => simp [parseOne] at h
  | legacyBound => simp [parseOne] at h
  | unknown => simp [parseOne] at h

/-- The closed form of the fold, from an accumulator. -/
def closed (g : G) (acc : Parsed) (attrs : List A) : Option Parsed :=
  if attrs.all (fun a => (parseOne g a).isSome) = true then
    if (acc.fmt.toList ++ fmts attrs).length ≤ 1 then
      if (acc.renameAll.toList ++ renames attrs).length ≤ 1 then
        some { fmt := (acc.fmt.toList ++ fmts attrs).head?, bounds := acc.bounds ++ preds attrs,
               renameAll := (acc.renameAll.toList ++ renames attrs).head? }
      else none
    else none
  else none

theorem closed_cons_none {g : G} {a : A} (h : parseOne g a = none) (acc : Parsed) (rest : List A) :
    closed g acc (a :: rest) = none := by
  simp [closed, h]

theorem closed_cons_some {g : G} {a : A} {n : Parsed} (h : parseOne g a = some n) (acc : Parsed) (rest : List A) :
    closed g acc (a :: rest) =
      if (acc.fmt.toList ++ (fmtOf a).toList).length ≤ 1 ∧ (acc.renameAll.toList ++ (renameOf a).toList).length ≤ 1 then
        closed g { fmt := (acc.fmt.toList ++ (fmtOf a).toList).head?, bounds := acc.bounds ++ predsOf a,
                   renameAll := (acc.renameAll.toList ++ (renameOf a).toList).head? } rest
      else none := by
  obtain ⟨f, b, r⟩ := acc
  have hall : (a :: rest).all (fun a => (parseOne g a).isSome) = rest.all (fun a => (parseOne g a).isSome) := by
    simp [h]
  unfold closed
  rw [hall]
  have hf : fmts (a :: rest) = (fmtOf a).toList ++ fmts rest := by
    simp only [fmts, List.filterMap_cons]; cases fmtOf a <;> rfl
  have hr : renames (a :: rest) = (renameOf a).toList ++ renames rest := by
    simp only [renames, List.filterMap_cons]; cases renameOf a <;> rfl
  have hp : preds (a :: rest) = predsOf a ++ preds rest := by simp [preds]
  rw [hf, hr, hp]
  by_cases hall' : rest.all (fun a => (parseOne g a).isSome) = true
  · simp only [hall', if_true]
    cases f <;> cases r <;> cases fmtOf a <;> cases renameOf a <;>
      simp [List.append_assoc] <;> (try omega) <;> (try (intros; omega)) <;> (try rfl) <;> (try (split <;> rfl))
  · rw [if_neg hall', if_neg hall']
    split <;> rfl


theorem merge_eq (acc : Parsed) (f : Option (Nat × List Nat)) (ps : List Nat) (r : Option Case) :
    merge acc { fmt := f, bounds := ps, renameAll := r } =
      if (acc.fmt.toList ++ f.toList).length ≤ 1 ∧ (acc.renameAll.toList ++ r.toList).length ≤ 1 then
        some { fmt := (acc.fmt.toList ++ f.toList).head?, bounds := acc.bounds ++ ps,
               renameAll := (acc.renameAll.toList ++ r.toList).head? }
      else none := by
  obtain ⟨af, ab, ar⟩ := acc
  cases af <;> cases ar <;> cases f <;> cases r <;> simp [merge]

/-- **The fold in closed form**: every attribute must be readable at this position, at most one format literal
and at most one `rename_all` may occur (counting what was accumulated before), and the result holds that
literal, that casing and all predicates in order. -/
theorem parseFrom_eq (g : G) (acc : Parsed) (attrs : List A) : parseFrom g acc attrs = closed g acc attrs := by
  induction attrs generalizing acc with
  | nil =>
    obtain ⟨f, b, r⟩ := acc
    cases f <;> cases r <;> simp [parseFrom, closed, fmts, renames, preds]
  | cons a rest ih =>
    unfold parseFrom
    cases hp : parseOne g a with
    | none => rw [closed_cons_none hp]
    | some n =>
      rw [closed_cons_some hp]
      have hn := parseOne_some hp
      subst hn
      simp only [merge_eq]
      by_cases hc : (acc.fmt.toList ++ (fmtOf a).toList).length ≤ 1 ∧ (acc.renameAll.toList ++ (renameOf a).toList).length ≤ 1
      · rw [if_pos hc, if_pos hc]; exact ih _
      · rw [if_neg hc, if_neg hc]

/-- The result for an attribute list, when there is one. -/
def resultOf (attrs : List A) : Parsed :=
  { fmt := (fmts attrs).head?, bounds := preds attrs, renameAll := (renames attrs).head? }

/-- **Acceptance characterised**: every attribute readable at the position, at most one format literal, at most one
`rename_all`, no format literal on an enum deriving Debug. -/
theorem parseAll_some_iff (g : G) (attrs : List A) (r : Parsed) :
    parseAll g attrs = some r ↔
      (∀ a ∈ attrs, (parseOne g a).isSome = true) ∧ (fmts attrs).length ≤ 1 ∧ (renames attrs).length ≤ 1 ∧
      (g = .debugEnum → fmts attrs = []) ∧ r = resultOf attrs := by
  have hcl : closed g {} attrs =
      if attrs.all (fun a => (parseOne g a).isSome) = true then
        if (fmts attrs).length ≤ 1 then
          if (renames attrs).length ≤ 1 then some (resultOf attrs) else none
        else none
      else none := by
    rfl
  simp only [parseAll, parseFrom_eq, hcl]
  by_cases h1 : attrs.all (fun a => (parseOne g a).isSome) = true
  · have h1' : ∀ a ∈ attrs, (parseOne g a).isSome = true := by simpa [List.all_eq_true] using h1
    rw [if_pos h1]
    by_cases h2 : (fmts attrs).length ≤ 1
    · rw [if_pos h2]
      by_cases h3 : (renames attrs).length ≤ 1
      · rw [if_pos h3]
        simp only []
        by_cases h4 : g = .debugEnum
        · by_cases hf : fmts attrs = []
          · have hd : (decide (g = G.debugEnum) && (resultOf attrs).fmt.isSome) = false := by
              simp [resultOf, hf]
            rw [hd]
            simp only [Bool.false_eq_true, if_false, Option.some.injEq]
            constructor
            · intro h; exact ⟨h1', h2, h3, fun _ => hf, h.symm⟩
            · intro h; exact h.2.2.2.2.symm
          · have hd : (decide (g = G.debugEnum) && (resultOf attrs).fmt.isSome) = true := by
              cases hfm : fmts attrs with
              | nil => exact absurd hfm hf
              | cons x xs => simp [resultOf, hfm, h4]
            rw [hd]
            simp only [if_true]
            constructor
            · intro h; cases h
            · intro h; exact absurd (h.2.2.2.1 h4) hf
        · have hd : (decide (g = G.debugEnum) && (resultOf attrs).fmt.isSome) = false := by simp [h4]
          rw [hd]
          simp only [Bool.false_eq_true, if_false, Option.some.injEq]
          constructor
          · intro h; exact ⟨h1', h2, h3, fun hg => absurd hg h4, h.symm⟩
          · intro h; exact h.2.2.2.2.symm
      · rw [if_neg h3]
        simp only []
        constructor
        · intro h; cases h
        · intro h; exact absurd h.2.2.1 h3
    · rw [if_neg h2]
      simp only []
      constructor
      · intro h; cases h
      · intro h; exact absurd h.2.1 h2
  · rw [if_neg h1]
    simp only []
    constructor
    · intro h; cases h
    · intro h
      exfalso; apply h1
      rw [List.all_eq_true]; exact h.1

theorem parseAll_none_iff (g : G) (attrs : List A) :
    parseAll g attrs = none ↔
      ¬ ((∀ a ∈ attrs, (parseOne g a).isSome = true) ∧ (fmts attrs).length ≤ 1 ∧ (renames attrs).length ≤ 1 ∧
         (g = .debugEnum → fmts attrs = [])) := by
  constructor
  · intro h hc
    have := (parseAll_some_iff g attrs (resultOf attrs)).mpr ⟨hc.1, hc.2.1, hc.2.2.1, hc.2.2.2, rfl⟩
    rw [h] at this; cases this
  · intro h
    cases hp : parseAll g attrs with
    | none => rfl
    | some r =>
      have := (parseAll_some_iff g attrs r).mp hp
      exact absurd ⟨this.1, this.2.1, this.2.2.1, this.2.2.2.1⟩ h

end Dm.FmtContainer

import Dm.Model.FmtBytes

namespace Dm.Bytes

theorem utf8Len_pos (c : Char) : 1 ≤ utf8Len c := by
  unfold utf8Len; repeat' split
  all_goals omega

theorem byteLen_append (a b : List Char) : byteLen (a ++ b) = byteLen a + byteLen b := by
  induction a with
  | nil => simp [byteLen]
  | cons c cs ih => simp [byteLen, ih]; omega

theorem sliceFrom_zero (s : List Char) : sliceFrom s 0 = some s := by
  cases s <;> rfl

theorem sliceTo_zero (s : List Char) : sliceTo s 0 = some [] := by
  cases s <;> rfl

theorem sliceFrom_append (p r : List Char) : sliceFrom (p ++ r) (byteLen p) = some r := by
  induction p with
  | nil => simp [byteLen, sliceFrom_zero]
  | cons c cs ih =>
    have hc := utf8Len_pos c
    obtain ⟨k, hk⟩ : ∃ k, utf8Len c + byteLen cs = k + 1 := ⟨utf8Len c + byteLen cs - 1, by omega⟩
    simp only [byteLen, List.cons_append, hk, sliceFrom]
    have h1 : utf8Len c ≤ k + 1 := by omega
    have h2 : k + 1 - utf8Len c = byteLen cs := by omega
    simp [h1, h2, ih]

theorem sliceTo_append (p r : List Char) : sliceTo (p ++ r) (byteLen p) = some p := by
  induction p with
  | nil => simp [byteLen, sliceTo_zero]
  | cons c cs ih =>
    have hc := utf8Len_pos c
    obtain ⟨k, hk⟩ : ∃ k, utf8Len c + byteLen cs = k + 1 := ⟨utf8Len c + byteLen cs - 1, by omega⟩
    simp only [byteLen, List.cons_append, hk, sliceTo]
    have h1 : utf8Len c ≤ k + 1 := by omega
    have h2 : k + 1 - utf8Len c = byteLen cs := by omega
    simp [h1, h2, ih]

/-- `input.len() - cur.len()` is the byte length of the consumed prefix, so the slice is that prefix. -/
theorem sliceConsumed_suffix (pre cur : List Char) :
    sliceConsumed (pre ++ cur) cur = .ok (cur, pre) := by
  unfold sliceConsumed
  have : byteLen (pre ++ cur) - byteLen cur = byteLen pre := by rw [byteLen_append]; omega
  rw [this, sliceTo_append]

theorem sliceFrom_head (c : Char) (cs : List Char) : sliceFrom (c :: cs) (utf8Len c) = some cs := by
  have := sliceFrom_append [c] cs
  simpa [byteLen] using this

theorem WB_checkChar (f : Char → Bool) : WB (checkChar f) := by
  intro i
  cases i with
  | nil => simp [checkChar]
  | cons c cs =>
    by_cases hf : f c = true
    · simp only [checkChar, hf, if_true, sliceFrom_head, ofSlice]
      exact ⟨[c], by simp, rfl⟩
    · simp [checkChar, hf]

theorem WB_char (c : Char) : WB (char' c) := by
  intro i
  cases i with
  | nil => simp [char']
  | cons d cs =>
    by_cases hd : d = c
    · subst hd
      simp only [char', if_true, sliceFrom_head, ofSlice]
      exact ⟨[d], by simp, rfl⟩
    · simp [char', hd]

theorem WB_anyChar : WB anyChar := by
  intro i
  cases i with
  | nil => simp [anyChar]
  | cons c cs =>
    simp only [anyChar, sliceFrom_head, ofSlice]
    exact ⟨[c], by simp, rfl⟩

theorem WB_str (s : List Char) (hs : s ≠ []) : WB (str' s) := by
  intro i
  by_cases h : s.isPrefixOf i = true
  · obtain ⟨t, rfl⟩ := List.isPrefixOf_iff_prefix.mp h
    simp only [str', h, if_true, sliceFrom_append, ofSlice]
    exact ⟨s, hs, rfl⟩
  · simp [str', h]

theorem WB_oneOf (cs : List Char) : WB (oneOf cs) := by
  intro i
  induction cs with
  | nil => simp [oneOf]
  | cons c cs ih =>
    have hc := WB_char c i
    unfold oneOf
    cases h : char' c i with
    | ok r => rw [h] at hc; simpa using hc
    | none => simpa using ih
    | panic => rw [h] at hc; exact hc.elim

theorem WB.noPanic {p : P} (h : WB p) : NoPanic p := by
  intro i hp
  have := h i
  rw [hp] at this
  exact this

/-- The `while let` loop over a well-behaved parser stops before the fuel (the length of what is left,
plus one) runs out, without a panic, at a suffix of where it started. -/
theorem whileSome_spec {p : P} (h : WB p) : ∀ (fuel : Nat) (cur : List Char), cur.length < fuel →
    ∃ r pre, whileSome p fuel cur = .ok r ∧ cur = pre ++ r := by
  intro fuel
  induction fuel with
  | zero => intro cur hlt; omega
  | succ f ih =>
    intro cur hlt
    have hp := h cur
    unfold whileSome
    cases hpc : p cur with
    | panic => rw [hpc] at hp; exact hp.elim
    | none => exact ⟨cur, [], rfl, rfl⟩
    | ok step =>
      rw [hpc] at hp
      obtain ⟨pre, hne, heq⟩ := hp
      have hlen : step.length < f := by
        have : cur.length = pre.length + step.length := by rw [heq, List.length_append]
        have : 0 < pre.length := List.length_pos_iff.mpr hne
        omega
      obtain ⟨r, pre', hr, heq'⟩ := ih step hlen
      exact ⟨r, pre ++ pre', hr, by rw [heq, heq', List.append_assoc]⟩

theorem untilLoop_spec {basic until_ : P} (hb : WB basic) (hu : NoPanic until_) :
    ∀ (fuel : Nat) (cur : List Char), cur.length < fuel →
    ∃ r pre, untilLoop basic until_ fuel cur = .ok r ∧ cur = pre ++ r := by
  intro fuel
  induction fuel with
  | zero => intro cur hlt; omega
  | succ f ih =>
    intro cur hlt
    unfold untilLoop
    cases huc : until_ cur with
    | panic => exact (hu cur huc).elim
    | ok _ => exact ⟨cur, [], rfl, rfl⟩
    | none =>
      have hp := hb cur
      cases hbc : basic cur with
      | panic => rw [hbc] at hp; exact hp.elim
      | none => exact ⟨cur, [], rfl, rfl⟩
      | ok b =>
        rw [hbc] at hp
        obtain ⟨pre, hne, heq⟩ := hp
        have hlen : b.length < f := by
          have : cur.length = pre.length + b.length := by rw [heq, List.length_append]
          have : 0 < pre.length := List.length_pos_iff.mpr hne
          omega
        obtain ⟨r, pre', hr, heq'⟩ := ih b hlen
        exact ⟨r, pre ++ pre', hr, by rw [heq, heq', List.append_assoc]⟩

end Dm.Bytes

/- Helper lemmas about the expression scanner model. -/
import Dm.Model.ExprSplit

namespace Dm.Split

theorem balancedLoop_prefix (o c : Char) : ∀ (ts : List Tok) (n : Nat) (out r : List Tok),
    balancedLoop o c ts n = some (out, r) → out ++ r = ts
  | ts, 0, out, r, h => by
    simp [balancedLoop] at h
    obtain ⟨rfl, rfl⟩ := h; rfl
  | [], n + 1, out, r, h => by simp [balancedLoop] at h
  | t :: ts, n + 1, out, r, h => by
    simp only [balancedLoop] at h
    split at h
    · rename_i out' r' heq
      have := balancedLoop_prefix o c ts _ out' r' heq
      cases h
      simp [this]
    · cases h

theorem balancedPair_prefix (o c : Char) (ts out r : List Tok)
    (h : balancedPair o c ts = some (out, r)) : out ++ r = ts := by
  cases ts with
  | nil => simp [balancedPair] at h
  | cons t ts =>
    simp only [balancedPair] at h
    split at h
    · split at h
      · rename_i out' r' heq
        have := balancedLoop_prefix o c ts 1 out' r' heq
        cases h; simp [this]
      · cases h
    · cases h

theorem balancedPair_nonempty (o c : Char) (ts out r : List Tok)
    (h : balancedPair o c ts = some (out, r)) : out ≠ [] := by
  cases ts with
  | nil => simp [balancedPair] at h
  | cons t ts =>
    simp only [balancedPair] at h
    split at h
    · split at h
      · cases h; simp
      · cases h
    · cases h

theorem exprStep_prefix (ts out r : List Tok) (h : exprStep ts = some (out, r)) :
    out ++ r = ts ∧ out ≠ [] := by
  unfold exprStep at h
  simp only at h
  split at h
  · -- alt 1
    rename_i x hx
    cases h
    split at hx
    · rename_i p1 p2 r0
      split at hx
      · split at hx
        · rename_i out' r' hb
          cases hx
          have := balancedPair_prefix _ _ _ _ _ hb
          exact ⟨by simp [this], by simp⟩
        · cases hx
      · cases hx
    · cases hx
  · split at h
    · -- alt 2
      rename_i x hx
      cases h
      split at hx
      · rename_i out' r0 hb
        split at hx
        · rename_i p1 p2 r'
          split at hx
          · cases hx
            have := balancedPair_prefix _ _ _ _ _ hb
            exact ⟨by simp [← this], by simp⟩
          · cases hx
        · cases hx
      · cases hx
    · split at h
      · rename_i x hb
        cases h
        exact ⟨balancedPair_prefix _ _ _ _ _ hb, balancedPair_nonempty _ _ _ _ _ hb⟩
      · split at h
        · cases h; exact ⟨rfl, by simp⟩
        · cases h

theorem takeUntilComma_prefix : ∀ (fuel : Nat) (ts : List Tok) (parsed : Bool) (acc out r : List Tok),
    takeUntilComma fuel ts parsed acc = some (out, r) →
      ∃ consumed, out = acc ++ consumed ∧ consumed ++ r = ts
        ∧ (r = [] ∨ ∃ t r', r = t :: r' ∧ t.isComma = true)
  | 0, ts, parsed, acc, out, r, h => by simp [takeUntilComma] at h
  | fuel + 1, ts, parsed, acc, out, r, h => by
    simp only [takeUntilComma] at h
    split at h
    · split at h
      · cases h; exact ⟨[], by simp, rfl, Or.inl rfl⟩
      · cases h
    · rename_i t rest
      split at h
      · rename_i hc
        split at h
        · cases h; exact ⟨[], by simp, rfl, Or.inr ⟨t, rest, rfl, hc⟩⟩
        · cases h
      · split at h
        · rename_i consumed r0 hs
          obtain ⟨c2, h1, h2, h3⟩ := takeUntilComma_prefix fuel r0 true (acc ++ consumed) out r h
          have hp := (exprStep_prefix _ _ _ hs).1
          exact ⟨consumed ++ c2, by simp [h1], by simp [← hp, ← h2], h3⟩
        · cases h

end Dm.Split

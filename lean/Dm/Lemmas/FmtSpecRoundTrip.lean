/-
Round trip for `format_spec`: printing a well-formed, canonical derivation of a format spec and parsing it back
with derive_more's `format_spec` gives exactly the derivation — whatever follows the closing brace.
-/
import Dm.Lemmas.FmtRoundTrip

namespace Dm.Fmt

def specials : List Char := [':', '$', '.', '?', '+', '-', '#', '<', '^', '>', '*']
def tyLetters : List Char := ['x', 'X', 'o', 'p', 'b', 'e', 'E']

/-- Further facts about the character tables (true of `unicode-xid` and `char::is_whitespace`, checked on every
run together with `Sane`): the ASCII punctuation of the spec grammar is neither identifier material nor
whitespace, and the type letters are not whitespace. -/
structure Sane2 (cc : CharClasses) : Prop where
  special_plain : ∀ c ∈ specials, cc.isStart c = false ∧ cc.isCont c = false ∧ cc.isWs c = false
  letter_plain : ∀ c ∈ tyLetters, cc.isWs c = false

/-! ### Lexical pieces with an arbitrary follower -/

theorem identifier_render' (cc : CharClasses) (cs r : List Char) (hi : IsIdent cc cs)
    (hr : ∀ x t, r = x :: t → cc.isCont x = false) : identifier cc (cs ++ r) = some (r, cs) := by
  cases cs with
  | nil => exact hi.elim
  | cons c cs =>
    have stop := fun (hall : ∀ d ∈ cs, cc.isCont d = true) =>
      takeWhile_append_stop (p := cc.isCont) cs r hall hr
    rcases hi with ⟨hst, hall⟩ | ⟨rfl, hne, hall⟩
    · simp [identifier, hst, (stop hall).1, (stop hall).2]
    · by_cases hst : cc.isStart '_' = true
      · simp [identifier, hst, (stop hall).1, (stop hall).2]
      · simp only [List.cons_append, identifier, hst, Bool.false_eq_true, if_false, if_true]
        rw [(stop hall).1, (stop hall).2]
        cases cs with
        | nil => exact (hne rfl).elim
        | cons d ds => rfl

theorem integer_render' (ds r : List Char) (hi : IsIndex ds) (hr : ∀ x t, r = x :: t → isDigit x = false) :
    integer (ds ++ r) = some (r, digitsVal ds) := by
  have stop := takeWhile_append_stop (p := isDigit) ds r hi.2.1 hr
  unfold integer
  rw [stop.1, stop.2]
  cases ds with
  | nil => exact (hi.1 rfl).elim
  | cons d ds => simp [hi.2.2]

theorem argument_render' (cc : CharClasses) (hs : Sane cc) (a : ArgA) (r : List Char) (ha : a.WF cc)
    (hr1 : ∀ x t, r = x :: t → cc.isCont x = false) (hr2 : ∀ x t, r = x :: t → isDigit x = false) :
    argument cc (a.render ++ r) = some (r, a.toArg) := by
  cases a with
  | name cs => simp [argument, ArgA.render, identifier_render' cc cs r ha hr1, ArgA.toArg]
  | idx ds =>
    have hi : IsIndex ds := ha
    cases ds with
    | nil => exact (hi.1 rfl).elim
    | cons d ds =>
      have hd := hs.digit_plain d (hi.2.1 d (by simp))
      have hnone : identifier cc ((d :: ds) ++ r) = none := identifier_none_of_head cc d (ds ++ r) hd.1 hd.2.1
      simp only [argument, ArgA.render, hnone]
      rw [integer_render' (d :: ds) r hi hr2]
      rfl

/-- What may follow a count in a spec: no digit and no `$` (a type letter may well be an identifier continuation:
`{:5x}`; a count that is a parameter ends with its own `$`). -/
def CountStop (r : List Char) : Prop :=
  ∀ x t, r = x :: t → isDigit x = false ∧ x ≠ '$'

theorem argument_render_idx (cc : CharClasses) (hs : Sane cc) (ds r : List Char) (hi : IsIndex ds)
    (hr : ∀ x t, r = x :: t → isDigit x = false) : argument cc (ds ++ r) = some (r, .int (digitsVal ds)) := by
  cases ds with
  | nil => exact (hi.1 rfl).elim
  | cons d ds =>
    have hd := hs.digit_plain d (hi.2.1 d (by simp))
    have hnone : identifier cc ((d :: ds) ++ r) = none := identifier_none_of_head cc d (ds ++ r) hd.1 hd.2.1
    simp only [argument, hnone]
    rw [integer_render' (d :: ds) r hi hr]

theorem count_render (cc : CharClasses) (hs : Sane cc) (h2 : Sane2 cc) (c : CountA) (r : List Char) (hc : c.WF cc)
    (hr : CountStop r) : count cc (c.render ++ r) = some (r, c.toCount) := by
  cases c with
  | lit ds =>
    have hi : IsIndex ds := hc
    have harg : argument cc (ds ++ r) = some (r, .int (digitsVal ds)) :=
      argument_render_idx cc hs ds r hi (fun x t e => (hr x t e).1)
    have hpar : parameter cc (ds ++ r) = none := by
      unfold parameter
      rw [harg]
      cases r with
      | nil => rfl
      | cons x t =>
        have := (hr x t rfl).2
        split
        · next r' a e => simp at e; exact (this e.1.1).elim
        · rfl
    simp only [count, CountA.render, hpar, CountA.toCount]
    rw [integer_render' ds r hi (fun x t e => (hr x t e).1)]
  | param a =>
    have hd := h2.special_plain '$' (by simp [specials])
    have harg : argument cc (a.render ++ ('$' :: r)) = some ('$' :: r, a.toArg) :=
      argument_render' cc hs a ('$' :: r) hc (by intro x t e; cases e; exact hd.2.1) (by intro x t e; cases e; decide)
    have : (CountA.param a).render ++ r = a.render ++ ('$' :: r) := by simp [CountA.render]
    rw [this]
    simp [count, parameter, harg, CountA.toCount]

/-- `count` fails on a head that is neither a digit nor `_`, when what follows that head is no identifier
continuation and no `$` (so that an identifier, if the head starts one, is not followed by `$`). -/
theorem count_none_head (cc : CharClasses) (l : Char) (t : List Char) (hd : isDigit l = false) (hu : l ≠ '_')
    (hst' : cc.isStart l = true → t ≠ [] ∧ ∀ y t', t = y :: t' → cc.isCont y = false ∧ y ≠ '$') : count cc (l :: t) = none := by
  have hint : integer (l :: t) = none := by simp [integer, List.takeWhile, hd]
  have hpar : parameter cc (l :: t) = none := by
    unfold parameter argument
    by_cases hst : cc.isStart l = true
    · obtain ⟨hne, ht⟩ := hst' hst
      cases t with
      | nil => exact (hne rfl).elim
      | cons y t' =>
        have hy := ht y t' rfl
        have : identifier cc (l :: y :: t') = some (y :: t', [l]) := by
          simp [identifier, hst, List.takeWhile, List.dropWhile, hy.1]
        rw [this]
        simp only []
        split
        · next r a e => simp at e; exact (hy.2 e.1.1).elim
        · rfl
    · have : identifier cc (l :: t) = none := identifier_none_of_head cc l t (by simpa using hst) hu
      rw [this, hint]
  simp [count, hpar, hint]

/-! ### What stands at the head of the remainders -/

/-- The first character of `ws ++ '}' :: tail` is `}` or whitespace. -/
theorem Closer.first {cc : CharClasses} {r : List Char} (h : Closer cc r) :
    ∃ x t, r = x :: t ∧ (x = '}' ∨ cc.isWs x = true) := by
  obtain ⟨ws, tail, rfl, hws⟩ := h
  cases ws with
  | nil => exact ⟨'}', tail, rfl, Or.inl rfl⟩
  | cons w ws => exact ⟨w, ws ++ '}' :: tail, rfl, Or.inr (hws w (by simp))⟩

/-- A character that is `}` or whitespace is none of the characters the spec grammar gives a meaning to. -/
structure Inert (cc : CharClasses) (x : Char) : Prop where
  not_start : cc.isStart x = false
  not_cont : cc.isCont x = false
  not_digit : isDigit x = false
  not_special : x ∉ specials
  not_letter : x ∉ tyLetters
  not_us : x ≠ '_'

theorem inert_of_closer_head (cc : CharClasses) (hs : Sane cc) (h2 : Sane2 cc) {x : Char} (hx : x = '}' ∨ cc.isWs x = true) :
    Inert cc x := by
  rcases hx with rfl | hw
  · exact ⟨hs.rbrace_plain.2.1, hs.rbrace_plain.1, by decide, by decide, by decide, by decide⟩
  · have w := hs.ws_plain x hw
    refine ⟨w.2.1, w.1, w.2.2.1, ?_, ?_, w.2.2.2.1⟩
    · intro hm
      have := (h2.special_plain x hm).2.2
      rw [hw] at this; cases this
    · intro hm
      have := h2.letter_plain x hm
      rw [hw] at this; cases this

/-- `type_` reads back the printed type and stops in front of the closing part. -/
theorem type_render (cc : CharClasses) (hs : Sane cc) (h2 : Sane2 cc) (ty : Ty) (after : List Char) (hc : Closer cc after) :
    type_ cc (ty.render ++ after) = some (after, ty) := by
  obtain ⟨x, t, rfl, hx⟩ := hc.first
  have hi := inert_of_closer_head cc hs h2 hx
  have hq : x ≠ '?' := fun e => hi.not_special (by simp [e, specials])
  cases ty with
  | display =>
    have hl : ∀ c ∈ tyLetters, x ≠ c := fun c hc e => hi.not_letter (e ▸ hc)
    have hx1 := hl 'x' (by simp [tyLetters])
    have hx2 := hl 'X' (by simp [tyLetters])
    have hx3 := hl 'o' (by simp [tyLetters])
    have hx4 := hl 'p' (by simp [tyLetters])
    have hx5 := hl 'b' (by simp [tyLetters])
    have hx6 := hl 'e' (by simp [tyLetters])
    have hx7 := hl 'E' (by simp [tyLetters])
    obtain ⟨ws, tail, hwt, hws⟩ := hc
    have hskip : skipWs cc (x :: t) = '}' :: tail := by rw [hwt]; exact skipWs_closer cc hs ws tail hws
    simp only [Ty.render, List.nil_append]
    unfold type_
    split <;> first
      | (next r e => exact absurd (List.cons.inj e).1 (by assumption))
      | skip
    all_goals (first | (rename_i e; exact absurd (List.cons.inj e).1 (by assumption)) | skip)
    all_goals simp [hskip]
  | debug => simp [Ty.render, type_]
  | lowerDebug => simp [Ty.render, type_]
  | upperDebug => simp [Ty.render, type_]
  | octal => simp [Ty.render, type_]
  | lowerHex => simp [Ty.render, type_, hq]
  | upperHex => simp [Ty.render, type_, hq]
  | pointer => simp [Ty.render, type_]
  | binary => simp [Ty.render, type_]
  | lowerExp => simp [Ty.render, type_]
  | upperExp => simp [Ty.render, type_]

/-! ### Characters that fill/align, sign and `#` do not read -/

structure Quiet (x : Char) : Prop where
  na : alignOf x = none
  np : x ≠ '+'
  nm : x ≠ '-'
  nh : x ≠ '#'
  nd : x ≠ '$'

theorem quiet_of_pred (P : Char → Bool) {x : Char} (h : P x = true)
    (h1 : P '<' = false) (h2 : P '^' = false) (h3 : P '>' = false) (h4 : P '+' = false) (h5 : P '-' = false)
    (h6 : P '#' = false) (h7 : P '$' = false) : Quiet x := by
  have ne : ∀ c, P c = false → x ≠ c := by intro c hc e; rw [e, hc] at h; cases h
  refine ⟨?_, ne _ h4, ne _ h5, ne _ h6, ne _ h7⟩
  simp [alignOf, ne _ h1, ne _ h2, ne _ h3]

theorem quiet_digit {x : Char} (h : isDigit x = true) : Quiet x :=
  quiet_of_pred isDigit h (by decide) (by decide) (by decide) (by decide) (by decide) (by decide) (by decide)

theorem quiet_start {cc : CharClasses} (h2 : Sane2 cc) {x : Char} (h : cc.isStart x = true) : Quiet x :=
  quiet_of_pred cc.isStart h (h2.special_plain _ (by simp [specials])).1 (h2.special_plain _ (by simp [specials])).1
    (h2.special_plain _ (by simp [specials])).1 (h2.special_plain _ (by simp [specials])).1
    (h2.special_plain _ (by simp [specials])).1 (h2.special_plain _ (by simp [specials])).1
    (h2.special_plain _ (by simp [specials])).1

theorem quiet_cont {cc : CharClasses} (h2 : Sane2 cc) {x : Char} (h : cc.isCont x = true) : Quiet x :=
  quiet_of_pred cc.isCont h (h2.special_plain _ (by simp [specials])).2.1 (h2.special_plain _ (by simp [specials])).2.1
    (h2.special_plain _ (by simp [specials])).2.1 (h2.special_plain _ (by simp [specials])).2.1
    (h2.special_plain _ (by simp [specials])).2.1 (h2.special_plain _ (by simp [specials])).2.1
    (h2.special_plain _ (by simp [specials])).2.1

theorem quiet_ws {cc : CharClasses} (h2 : Sane2 cc) {x : Char} (h : cc.isWs x = true) : Quiet x :=
  quiet_of_pred cc.isWs h (h2.special_plain _ (by simp [specials])).2.2 (h2.special_plain _ (by simp [specials])).2.2
    (h2.special_plain _ (by simp [specials])).2.2 (h2.special_plain _ (by simp [specials])).2.2
    (h2.special_plain _ (by simp [specials])).2.2 (h2.special_plain _ (by simp [specials])).2.2
    (h2.special_plain _ (by simp [specials])).2.2

theorem quiet_lit {x : Char} (h : x ∈ ['_', '.', '?', '*', '}', 'x', 'X', 'o', 'p', 'b', 'e', 'E']) : Quiet x := by
  simp at h
  rcases h with rfl | rfl | rfl | rfl | rfl | rfl | rfl | rfl | rfl | rfl | rfl | rfl <;>
    exact ⟨by decide, by decide, by decide, by decide, by decide⟩

theorem quiet_closer_head {cc : CharClasses} (h2 : Sane2 cc) {x : Char} (hx : x = '}' ∨ cc.isWs x = true) : Quiet x := by
  rcases hx with rfl | hw
  · exact quiet_lit (by simp)
  · exact quiet_ws h2 hw

/-- What the stages in front of the type need to know about `type ++ closing part`. -/
def TailFacts (cc : CharClasses) (r : List Char) : Prop :=
  ∃ x t, r = x :: t ∧ Quiet x ∧ x ≠ '.' ∧ isDigit x = false ∧ x ≠ '_' ∧
    (cc.isStart x = true → t ≠ [] ∧ ∀ y t', t = y :: t' → cc.isCont y = false ∧ y ≠ '$')

theorem tail_T6 (cc : CharClasses) (hs : Sane cc) (h2 : Sane2 cc) (ty : Ty) (after : List Char) (hc : Closer cc after) :
    TailFacts cc (ty.render ++ after) := by
  obtain ⟨a, t, rfl, ha⟩ := hc.first
  have hi := inert_of_closer_head cc hs h2 ha
  have hq := quiet_closer_head h2 ha
  have hafter : ∀ y t', a :: t = y :: t' → cc.isCont y = false ∧ y ≠ '$' := by
    intro y t' e; cases e; exact ⟨hi.not_cont, hq.nd⟩
  have hqm : cc.isCont '?' = false ∧ ('?' : Char) ≠ '$' := ⟨(h2.special_plain '?' (by simp [specials])).2.1, by decide⟩
  have letter : ∀ (l : Char), l ∈ ['x', 'X', 'o', 'p', 'b', 'e', 'E'] → ∀ (mid : List Char),
      (mid = [] ∨ mid = ['?']) → TailFacts cc (l :: (mid ++ a :: t)) := by
    intro l hl mid hmid
    have hrest : cc.isStart l = true → mid ++ a :: t ≠ [] ∧ ∀ y t', mid ++ a :: t = y :: t' → cc.isCont y = false ∧ y ≠ '$' := by
      intro _
      rcases hmid with rfl | rfl
      · exact ⟨by simp, hafter⟩
      · refine ⟨by simp, ?_⟩
        intro y t' e
        simp at e
        rw [← e.1]; exact hqm
    simp at hl
    rcases hl with rfl | rfl | rfl | rfl | rfl | rfl | rfl <;>
      exact ⟨_, _, rfl, quiet_lit (by simp), by decide, by decide, by decide, hrest⟩
  cases ty with
  | display =>
    refine ⟨a, t, rfl, hq, ?_, hi.not_digit, hi.not_us, ?_⟩
    · intro e; exact hi.not_special (by simp [e, specials])
    · intro h; rw [hi.not_start] at h; cases h
  | debug =>
    refine ⟨'?', a :: t, rfl, quiet_lit (by simp), by decide, by decide, by decide, ?_⟩
    intro h; rw [(h2.special_plain '?' (by simp [specials])).1] at h; cases h
  | lowerDebug => exact letter 'x' (by simp) ['?'] (Or.inr rfl)
  | upperDebug => exact letter 'X' (by simp) ['?'] (Or.inr rfl)
  | octal => exact letter 'o' (by simp) [] (Or.inl rfl)
  | lowerHex => exact letter 'x' (by simp) [] (Or.inl rfl)
  | upperHex => exact letter 'X' (by simp) [] (Or.inl rfl)
  | pointer => exact letter 'p' (by simp) [] (Or.inl rfl)
  | binary => exact letter 'b' (by simp) [] (Or.inl rfl)
  | lowerExp => exact letter 'e' (by simp) [] (Or.inl rfl)
  | upperExp => exact letter 'E' (by simp) [] (Or.inl rfl)

/-- The same facts hold with a printed precision in front (`.` leads it). -/
theorem tail_T5 (cc : CharClasses) (h2 : Sane2 cc) (prec : List Char) (r : List Char) (hr : TailFacts cc r)
    (hp : prec = [] ∨ ∃ rest, prec = '.' :: rest) :
    ∃ x t, prec ++ r = x :: t ∧ Quiet x ∧ isDigit x = false ∧ x ≠ '_' ∧
      (cc.isStart x = true → t ≠ [] ∧ ∀ y t', t = y :: t' → cc.isCont y = false ∧ y ≠ '$') := by
  rcases hp with rfl | ⟨rest, rfl⟩
  · obtain ⟨x, t, e, q, _, d, u, st⟩ := hr
    exact ⟨x, t, e, q, d, u, st⟩
  · refine ⟨'.', rest ++ r, rfl, quiet_lit (by simp), by decide, by decide, ?_⟩
    intro h; rw [(h2.special_plain '.' (by simp [specials])).1] at h; cases h

/-! ### The stages of `format_spec` -/

theorem signOf_render (sg : Option Sign) (r : List Char) (hr : ∀ x t, r = x :: t → x ≠ '+' ∧ x ≠ '-') :
    signOf (optRender (fun sg => [Sign.render sg]) sg ++ r) = (r, sg) := by
  cases sg with
  | some g => cases g <;> rfl
  | none =>
    simp only [optRender, List.nil_append]
    cases r with
    | nil => rfl
    | cons x t =>
      have q := hr x t rfl
      unfold signOf
      split
      · next r' e => exact absurd (List.cons.inj e).1 q.1
      · next r' e => exact absurd (List.cons.inj e).1 q.2
      · rfl

theorem altOf_render (alt : Bool) (r : List Char) (hr : ∀ x t, r = x :: t → x ≠ '#') :
    altOf ((if alt then ['#'] else []) ++ r) = (r, alt) := by
  cases alt with
  | true => rfl
  | false =>
    simp only [Bool.false_eq_true, if_false, List.nil_append]
    cases r with
    | nil => rfl
    | cons x t =>
      have q := hr x t rfl
      unfold altOf
      split
      · next r' e => exact absurd (List.cons.inj e).1 q
      · rfl

/-- `zeroOf` with the flag printed: what follows exists and is not `$`. -/
theorem zeroOf_render_true (r : List Char) (hr : ∃ x t, r = x :: t ∧ x ≠ '$') : zeroOf ('0' :: r) = (r, true) := by
  obtain ⟨x, t, rfl, hx⟩ := hr
  simp [zeroOf, hx]

/-- `zeroOf` without the flag: the remainder does not start with `0`, or starts with `0$`. -/
theorem zeroOf_render_false (r : List Char) (hr : (∀ x t, r = x :: t → x ≠ '0') ∨ ∃ t, r = '0' :: '$' :: t) :
    zeroOf r = (r, false) := by
  rcases hr with h | ⟨t, rfl⟩
  · cases r with
    | nil => rfl
    | cons x t =>
      have := h x t rfl
      unfold zeroOf
      split
      · next c r' e => exact absurd (List.cons.inj e).1 this
      · rfl
  · simp [zeroOf]

theorem alignOf_render (a : Align) : alignOf a.render = some a := by cases a <;> rfl

theorem fillAlign_render (s : SpecA) (hfa : s.fill.isSome → s.align.isSome) (T1 : List Char)
    (h1 : ∃ x t, T1 = x :: t ∧ alignOf x = none)
    (h2 : s.align = none → ∀ x y r, T1 = x :: y :: r → alignOf y = none) :
    fillAlign (s.renderFillAlign ++ T1) = (T1, s.align.map fun a => (s.fill, a)) := by
  obtain ⟨x, t, rfl, hx⟩ := h1
  cases ha : s.align with
  | some a =>
    cases hf : s.fill with
    | some f => simp [SpecA.renderFillAlign, ha, hf, fillAlign, alignOf_render]
    | none => simp [SpecA.renderFillAlign, ha, hf, fillAlign, alignOf_render, hx]
  | none =>
    have hf : s.fill = none := by
      cases hf : s.fill with
      | none => rfl
      | some f => have := hfa (by simp [hf]); simp [ha] at this
    simp only [SpecA.renderFillAlign, ha, hf, List.nil_append, Option.map]
    cases t with
    | nil => simp [fillAlign, hx]
    | cons y r =>
      have hy := h2 ha x y r rfl
      simp [fillAlign, hx, hy]

/-- Everything printed after fill/align. -/
def SpecA.renderRest (s : SpecA) : List Char :=
  optRender (fun sg => [Sign.render sg]) s.sign ++ ((if s.alt then ['#'] else []) ++ ((if s.zero then ['0'] else [])
    ++ (s.renderWidth ++ (s.renderPrec ++ s.ty.render))))

theorem SpecA.render_eq (s : SpecA) : s.render = s.renderFillAlign ++ s.renderRest := by
  simp [SpecA.render, SpecA.renderRest, List.append_assoc]

/-- **`format_spec` reads back a printed spec.** `after` is the closing part (`[ws]* '}' tail`). The last
hypothesis is the std-canonical choice for the one real ambiguity that involves the context: without an
alignment, the second character of what follows must not be an alignment character (it would make the first a
fill: `{:}<` is fill `}` with `<`, not an empty spec followed by `<`). -/
theorem formatSpec_render (cc : CharClasses) (hs : Sane cc) (h2 : Sane2 cc) (s : SpecA) (hw : s.WF cc)
    (after : List Char) (hc : Closer cc after)
    (hal : s.align = none → ∀ x y r, s.renderRest ++ after = x :: y :: r → alignOf y = none) :
    formatSpec cc (s.render ++ after) = some (after, s.toSpec) := by
  -- the remainders after each stage
  obtain ⟨T6, hT6⟩ : ∃ T, T = s.ty.render ++ after := ⟨_, rfl⟩
  obtain ⟨T5, hT5⟩ : ∃ T, T = s.renderPrec ++ T6 := ⟨_, rfl⟩
  obtain ⟨T4, hT4⟩ : ∃ T, T = s.renderWidth ++ T5 := ⟨_, rfl⟩
  obtain ⟨T3, hT3⟩ : ∃ T, T = (if s.zero then ['0'] else []) ++ T4 := ⟨_, rfl⟩
  obtain ⟨T2, hT2⟩ : ∃ T, T = (if s.alt then ['#'] else []) ++ T3 := ⟨_, rfl⟩
  obtain ⟨T1, hT1⟩ : ∃ T, T = optRender (fun sg => [Sign.render sg]) s.sign ++ T2 := ⟨_, rfl⟩
  have eT1 : s.renderRest ++ after = T1 := by simp [SpecA.renderRest, hT1, hT2, hT3, hT4, hT5, hT6, List.append_assoc]
  have e0 : s.render ++ after = s.renderFillAlign ++ T1 := by rw [s.render_eq, List.append_assoc, eT1]
  have f6 : TailFacts cc T6 := hT6 ▸ tail_T6 cc hs h2 s.ty after hc
  have hprecShape : s.renderPrec = [] ∨ ∃ rest, s.renderPrec = '.' :: rest := by
    unfold SpecA.renderPrec; cases s.prec with
    | none => exact Or.inl rfl
    | some p => exact Or.inr ⟨_, rfl⟩
  obtain ⟨x5, t5, e5, q5, d5, u5, st5⟩ := tail_T5 cc h2 s.renderPrec T6 f6 hprecShape
  rw [← hT5] at e5
  -- head of T4
  have q4 : ∃ x t, T4 = x :: t ∧ Quiet x := by
    cases hwd : s.width with
    | none => exact ⟨x5, t5, by simp [hT4, SpecA.renderWidth, hwd, optRender, e5, hT5], q5⟩
    | some w =>
      have hwf := hw.width w hwd
      cases w with
      | lit ds =>
        have hi : IsIndex ds := hwf
        cases ds with
        | nil => exact (hi.1 rfl).elim
        | cons d ds => exact ⟨d, ds ++ T5, by simp [hT4, SpecA.renderWidth, hwd, optRender, CountA.render], quiet_digit (hi.2.1 d (by simp))⟩
      | param a =>
        cases a with
        | idx ds =>
          have hi : IsIndex ds := hwf
          cases ds with
          | nil => exact (hi.1 rfl).elim
          | cons d ds => exact ⟨d, ds ++ '$' :: T5, by simp [hT4, SpecA.renderWidth, hwd, optRender, CountA.render, ArgA.render], quiet_digit (hi.2.1 d (by simp))⟩
        | name cs =>
          have hi : IsIdent cc cs := hwf
          cases cs with
          | nil => exact hi.elim
          | cons c cs =>
            refine ⟨c, cs ++ '$' :: T5, by simp [hT4, SpecA.renderWidth, hwd, optRender, CountA.render, ArgA.render], ?_⟩
            rcases hi with ⟨hst, _⟩ | ⟨rfl, _⟩
            · exact quiet_start h2 hst
            · exact quiet_lit (by simp)
  have q3 : ∃ x t, T3 = x :: t ∧ Quiet x := by
    obtain ⟨x, t, e, q⟩ := q4
    cases hz : s.zero with
    | false => exact ⟨x, t, by simp [hT3, hz, e], q⟩
    | true => exact ⟨'0', T4, by simp [hT3, hz], quiet_digit (by decide)⟩
  have q2 : ∃ x t, T2 = x :: t ∧ alignOf x = none ∧ x ≠ '+' ∧ x ≠ '-' := by
    obtain ⟨x, t, e, q⟩ := q3
    cases hz : s.alt with
    | false => exact ⟨x, t, by simp [hT2, hz, e], q.na, q.np, q.nm⟩
    | true => exact ⟨'#', T3, by simp [hT2, hz], by decide, by decide, by decide⟩
  have q1 : ∃ x t, T1 = x :: t ∧ alignOf x = none := by
    obtain ⟨x, t, e, q, _, _⟩ := q2
    cases hsg : s.sign with
    | none => exact ⟨x, t, by simp [hT1, hsg, optRender, e], q⟩
    | some g =>
      cases g with
      | plus => exact ⟨'+', T2, by simp [hT1, hsg, optRender, Sign.render], by decide⟩
      | minus => exact ⟨'-', T2, by simp [hT1, hsg, optRender, Sign.render], by decide⟩
  -- the stages
  have s1 : fillAlign (s.renderFillAlign ++ T1) = (T1, s.align.map fun a => (s.fill, a)) :=
    fillAlign_render s hw.fill_needs_align T1 q1 (by intro ha x y r e; exact hal ha x y r (eT1 ▸ e))
  have s2 : signOf T1 = (T2, s.sign) := hT1 ▸
    signOf_render s.sign T2 (by intro x t e; obtain ⟨x', t', e', _, hp, hm⟩ := q2; rw [e'] at e; cases e; exact ⟨hp, hm⟩)
  have s3 : altOf T2 = (T3, s.alt) := hT2 ▸
    altOf_render s.alt T3 (by intro x t e; obtain ⟨x', t', e', q⟩ := q3; rw [e'] at e; cases e; exact q.nh)
  have hwne : ∀ w, s.width = some w → ∃ c r, w.render = c :: r := by
    intro w hwd
    have hwf := hw.width w hwd
    cases w with
    | lit ds =>
      have hi : IsIndex ds := hwf
      cases ds with
      | nil => exact (hi.1 rfl).elim
      | cons d ds => exact ⟨d, ds, rfl⟩
    | param a =>
      cases a with
      | idx ds =>
        cases ds with
        | nil => exact ⟨'$', [], rfl⟩
        | cons d ds => exact ⟨d, ds ++ ['$'], rfl⟩
      | name cs =>
        cases cs with
        | nil => exact ⟨'$', [], rfl⟩
        | cons d ds => exact ⟨d, ds ++ ['$'], rfl⟩
  have s4 : zeroOf T3 = (T4, s.zero) := by
    cases hz : s.zero with
    | true =>
      obtain ⟨x, t, e, q⟩ := q4
      have : T3 = '0' :: T4 := by simp [hT3, hz]
      rw [this]
      exact zeroOf_render_true T4 ⟨x, t, e, q.nd⟩
    | false =>
      have : T3 = T4 := by simp [hT3, hz]
      rw [this]
      apply zeroOf_render_false
      have hzc := hw.zero hz
      cases hwd : s.width with
      | none =>
        left
        intro x t e
        have : T4 = x5 :: t5 := by simp [hT4, SpecA.renderWidth, hwd, optRender, e5, hT5]
        rw [this] at e; cases e
        intro e0'; rw [e0'] at d5; exact absurd d5 (by decide)
      | some w =>
        rw [hwd] at hzc
        simp only at hzc
        obtain ⟨c, r, hcr⟩ := hwne w hwd
        rcases hzc with h | h
        · left
          intro x t e
          have : T4 = c :: (r ++ T5) := by simp [hT4, SpecA.renderWidth, hwd, optRender, hcr]
          rw [this] at e; cases e
          intro e0'; apply h; rw [hcr, e0']; rfl
        · right
          exact ⟨T5, by simp [hT4, SpecA.renderWidth, hwd, optRender, h, CountA.render, ArgA.render]⟩
  have stop5 : CountStop T5 := by
    intro x t e
    have : T5 = x5 :: t5 := e5
    rw [this] at e; cases e
    exact ⟨d5, q5.nd⟩
  have stop6 : CountStop T6 := by
    obtain ⟨x, t, e, q, _, d, _, _⟩ := f6
    intro x' t' e'
    rw [e] at e'; cases e'
    exact ⟨d, q.nd⟩
  have hcount : count cc T4 = s.width.map (fun w => (T5, w.toCount)) ∧ (s.width = none → T4 = T5) := by
    cases hwd : s.width with
    | some w =>
      have : T4 = w.render ++ T5 := by simp [hT4, SpecA.renderWidth, hwd, optRender]
      rw [this, count_render cc hs h2 w T5 (hw.width w hwd) stop5]
      exact ⟨rfl, fun h => by cases h⟩
    | none =>
      have e45 : T4 = T5 := by simp [hT4, SpecA.renderWidth, hwd, optRender]
      rw [e45, e5, count_none_head cc x5 t5 d5 u5 st5]
      exact ⟨rfl, fun _ => rfl⟩
  have hprec : ∀ p, s.prec = some p → T5 = '.' :: (p.render ++ T6) ∧ precision cc (p.render ++ T6) = some (T6, p.toPrec) := by
    intro p hpr
    refine ⟨by simp [hT5, SpecA.renderPrec, hpr], ?_⟩
    cases p with
    | count c =>
      have hcwf : c.WF cc := hw.prec _ hpr
      simp [precision, PrecA.render, count_render cc hs h2 c T6 hcwf stop6, PrecA.toPrec]
    | star =>
      have hstar : count cc ('*' :: T6) = none :=
        count_none_head cc '*' T6 (by decide) (by decide)
          (by intro h; rw [(h2.special_plain '*' (by simp [specials])).1] at h; cases h)
      simp [precision, PrecA.render, hstar, PrecA.toPrec]
  have hnoprec : s.prec = none → T5 = T6 ∧ ∃ x t, T6 = x :: t ∧ x ≠ '.' := by
    intro hpr
    obtain ⟨x, t, e, _, hdot, _⟩ := f6
    exact ⟨by simp [hT5, SpecA.renderPrec, hpr], x, t, e, hdot⟩
  have s7 : type_ cc T6 = some (after, s.ty) := hT6 ▸ type_render cc hs h2 s.ty after hc
  unfold formatSpec
  rw [e0]
  simp only [s1, s2, s3, s4, hcount.1]
  cases hwd : s.width with
  | some w =>
    simp only [Option.map]
    cases hpr : s.prec with
    | some p =>
      obtain ⟨e5', hp⟩ := hprec p hpr
      rw [e5']
      simp only [hp, s7, SpecA.toSpec, hwd, hpr, Option.map]
    | none =>
      obtain ⟨e56, x, t, e6, hdot⟩ := hnoprec hpr
      rw [e56]
      rw [e6] at s7 ⊢
      split
      · next heq =>
        split at heq
        · next r e' => exact absurd (List.cons.inj e').1 hdot
        · cases heq
      · next s6 p heq =>
        split at heq
        · next r e' => exact absurd (List.cons.inj e').1 hdot
        · cases heq
          simp only [s7, SpecA.toSpec, hwd, hpr, Option.map]
  | none =>
    simp only [Option.map]
    rw [hcount.2 hwd]
    cases hpr : s.prec with
    | some p =>
      obtain ⟨e5', hp⟩ := hprec p hpr
      rw [e5']
      simp only [hp, s7, SpecA.toSpec, hwd, hpr, Option.map]
    | none =>
      obtain ⟨e56, x, t, e6, hdot⟩ := hnoprec hpr
      rw [e56]
      rw [e6] at s7 ⊢
      split
      · next heq =>
        split at heq
        · next r e' => exact absurd (List.cons.inj e').1 hdot
        · cases heq
      · next s6 p heq =>
        split at heq
        · next r e' => exact absurd (List.cons.inj e').1 hdot
        · cases heq
          simp only [s7, SpecA.toSpec, hwd, hpr, Option.map]

/-! ### The alignment condition from the structure of the derivation -/

theorem noalign_arg (cc : CharClasses) (h2 : Sane2 cc) (a : ArgA) (ha : a.WF cc) : ∀ c ∈ a.render, alignOf c = none := by
  intro c hc
  cases a with
  | idx ds => exact (quiet_digit ((show IsIndex ds from ha).2.1 c hc)).na
  | name cs =>
    have hi : IsIdent cc cs := ha
    cases cs with
    | nil => cases hc
    | cons d ds =>
      simp only [ArgA.render, List.mem_cons] at hc
      rcases hi with ⟨hst, hall⟩ | ⟨rfl, _, hall⟩
      · rcases hc with rfl | hc
        · exact (quiet_start h2 hst).na
        · exact (quiet_cont h2 (hall c hc)).na
      · rcases hc with rfl | hc
        · decide
        · exact (quiet_cont h2 (hall c hc)).na

theorem noalign_count (cc : CharClasses) (h2 : Sane2 cc) (w : CountA) (hw : w.WF cc) : ∀ c ∈ w.render, alignOf c = none := by
  intro c hc
  cases w with
  | lit ds => exact (quiet_digit ((show IsIndex ds from hw).2.1 c hc)).na
  | param a =>
    simp only [CountA.render, List.mem_append, List.mem_singleton] at hc
    rcases hc with hc | rfl
    · exact noalign_arg cc h2 a hw c hc
    · decide

theorem noalign_rest (cc : CharClasses) (h2 : Sane2 cc) (s : SpecA) (hw : s.WF cc) : ∀ c ∈ s.renderRest, alignOf c = none := by
  intro c hc
  simp only [SpecA.renderRest, List.mem_append] at hc
  rcases hc with hc | hc | hc | hc | hc | hc
  · cases hsg : s.sign with
    | none => simp [hsg, optRender] at hc
    | some g => cases g <;> (simp [hsg, optRender, Sign.render] at hc; subst hc; decide)
  · cases ha : s.alt <;> simp [ha] at hc
    subst hc; decide
  · cases hz : s.zero <;> simp [hz] at hc
    subst hc; decide
  · cases hwd : s.width with
    | none => simp [SpecA.renderWidth, hwd, optRender] at hc
    | some w =>
      simp only [SpecA.renderWidth, hwd, optRender] at hc
      exact noalign_count cc h2 w (hw.width w hwd) c hc
  · cases hpr : s.prec with
    | none => simp [SpecA.renderPrec, hpr] at hc
    | some p =>
      simp only [SpecA.renderPrec, hpr, List.mem_cons] at hc
      rcases hc with rfl | hc
      · decide
      · cases p with
        | count w => exact noalign_count cc h2 w (hw.prec _ hpr) c hc
        | star => simp [PrecA.render] at hc; subst hc; decide
  · cases hty : s.ty <;> simp [hty, Ty.render] at hc <;> (try (rcases hc with rfl | rfl)) <;> (try subst hc) <;> decide

/-- The context condition of `formatSpec_render` holds unless the printed spec is empty, no whitespace follows, and
the text after the closing brace starts with an alignment character. -/
theorem align_condition (cc : CharClasses) (h2 : Sane2 cc) (s : SpecA) (hw : s.WF cc) (ws tail : List Char)
    (hws : ∀ c ∈ ws, cc.isWs c = true)
    (h : s.renderRest = [] → ws = [] → ∀ c t, tail = c :: t → alignOf c = none) :
    ∀ x y r, s.renderRest ++ (ws ++ '}' :: tail) = x :: y :: r → alignOf y = none := by
  intro x y r e
  have hbody : ∀ c ∈ s.renderRest ++ ws, alignOf c = none := by
    intro c hc
    rcases List.mem_append.mp hc with hc | hc
    · exact noalign_rest cc h2 s hw c hc
    · exact (quiet_ws h2 (hws c hc)).na
  rw [← List.append_assoc] at e
  cases hb : s.renderRest ++ ws with
  | nil =>
    rw [hb] at e
    simp at e
    have h1 : s.renderRest = [] := (List.append_eq_nil_iff.mp hb).1
    have h2' : ws = [] := (List.append_eq_nil_iff.mp hb).2
    exact h h1 h2' y r e.2
  | cons b1 bs =>
    rw [hb] at e hbody
    cases bs with
    | nil => simp at e; rw [← e.2.1]; decide
    | cons b2 bs' =>
      simp at e
      rw [← e.2.1]
      exact hbody b2 (by simp)

/-! ### Placeholders with a spec, and whole literals -/

/-- The one context-dependent ambiguity of the grammar, excluded as std resolves it: `{:}` / `{0:}` (empty spec, no
whitespace) directly followed by `<`, `^` or `>` is read as a fill `}` with that alignment. -/
def PhA.AlignOk (p : PhA) (tail : List Char) : Prop :=
  ∀ s, p.spec = some s → s.align = none → s.renderRest = [] → p.ws = [] → ∀ c t, tail = c :: t → alignOf c = none

theorem format_render_spec (cc : CharClasses) (hs : Sane cc) (h2 : Sane2 cc) (p : PhA) (hp : p.WF cc) (s : SpecA)
    (hsp : p.spec = some s) (tail : List Char) (hal : p.AlignOk tail) :
    format cc (p.render ++ tail) = some (tail, p.toFormat) := by
  have hcl : Closer cc (p.ws ++ '}' :: tail) := ⟨p.ws, tail, rfl, hp.ws⟩
  have hskip := skipWs_closer cc hs p.ws tail hp.ws
  have hcolon := h2.special_plain ':' (by simp [specials])
  have hspec : formatSpec cc (s.render ++ (p.ws ++ '}' :: tail)) = some (p.ws ++ '}' :: tail, s.toSpec) :=
    formatSpec_render cc hs h2 s (hp.spec s hsp) _ hcl
      (fun ha => align_condition cc h2 s (hp.spec s hsp) p.ws tail hp.ws (fun h1 h2' => hal s hsp ha h1 h2'))
  cases ha : p.arg with
  | none =>
    have hrender : p.render ++ tail = '{' :: ':' :: (s.render ++ (p.ws ++ '}' :: tail)) := by
      simp [PhA.render, ha, hsp, optRender, List.append_assoc]
    have harg : argument cc (':' :: (s.render ++ (p.ws ++ '}' :: tail))) = none := by
      have h1 : identifier cc (':' :: (s.render ++ (p.ws ++ '}' :: tail))) = none :=
        identifier_none_of_head cc ':' _ hcolon.1 (by decide)
      have h2'' : integer (':' :: (s.render ++ (p.ws ++ '}' :: tail))) = none := by
        simp [integer, List.takeWhile, isDigit]
      simp [argument, h1, h2'']
    rw [hrender]
    simp only [format, harg, hspec, hskip, PhA.toFormat, ha, hsp, Option.map]
  | some a =>
    have hrender : p.render ++ tail = '{' :: (a.render ++ (':' :: (s.render ++ (p.ws ++ '}' :: tail)))) := by
      simp [PhA.render, ha, hsp, optRender, List.append_assoc]
    have harg : argument cc (a.render ++ (':' :: (s.render ++ (p.ws ++ '}' :: tail))))
        = some (':' :: (s.render ++ (p.ws ++ '}' :: tail)), a.toArg) :=
      argument_render' cc hs a _ (hp.arg a ha) (by intro x t e; cases e; exact hcolon.2.1) (by intro x t e; cases e; decide)
    rw [hrender]
    simp only [format, harg, hspec, hskip, PhA.toFormat, ha, hsp, Option.map]

/-- A printed placeholder parses back to its own format, whatever follows (up to the alignment condition). -/
theorem format_render (cc : CharClasses) (hs : Sane cc) (h2 : Sane2 cc) (p : PhA) (hp : p.WF cc) (tail : List Char)
    (hal : p.AlignOk tail) : format cc (p.render ++ tail) = some (tail, p.toFormat) := by
  cases hsp : p.spec with
  | none => exact format_render_nospec cc hs p hp hsp tail
  | some s => exact format_render_spec cc hs h2 p hp s hsp tail hal

/-- `maybe_format` on a printed placeholder. -/
theorem maybeFormat_ph' (cc : CharClasses) (hs : Sane cc) (h2 : Sane2 cc) (p : PhA) (hp : p.WF cc) (tail : List Char)
    (hal : p.AlignOk tail) : maybeFormat cc (p.render ++ tail) = some (tail, some p.toFormat) := by
  cases hsp : p.spec with
  | none => exact maybeFormat_ph cc hs p hp hsp tail
  | some s =>
    have hf := format_render cc hs h2 p hp tail hal
    have hshape : ∃ y rest, p.render ++ tail = '{' :: y :: rest ∧ y ≠ '{' := by
      cases ha : p.arg with
      | none => exact ⟨':', _, by simp [PhA.render, ha, hsp, optRender]; rfl, by decide⟩
      | some a =>
        cases a with
        | idx ds =>
          have hi : IsIndex ds := hp.arg _ ha
          cases ds with
          | nil => exact (hi.1 rfl).elim
          | cons d ds =>
            refine ⟨d, _, by simp [PhA.render, ha, hsp, optRender, ArgA.render]; rfl, ?_⟩
            intro e; subst e
            have := hi.2.1 '{' (by simp)
            simp [isDigit] at this
        | name cs =>
          have hi : IsIdent cc cs := hp.arg _ ha
          cases cs with
          | nil => exact hi.elim
          | cons c cs =>
            refine ⟨c, _, by simp [PhA.render, ha, hsp, optRender, ArgA.render]; rfl, ?_⟩
            rcases hi with ⟨hst, _⟩ | ⟨rfl, _⟩
            · exact (hs.start_plain c hst).1
            · decide
    obtain ⟨y, rest, hsh, hy⟩ := hshape
    rw [hsh] at hf ⊢
    unfold maybeFormat
    split
    · next r e => cases e; exact (hy rfl).elim
    · next r e => cases e
    · rw [hf]

/-- Every placeholder of the derivation satisfies the alignment condition with respect to what is printed after it. -/
def SpecCanonical : List Piece → Prop
  | [] => True
  | .ph p :: rest => p.AlignOk (renderAll rest) ∧ SpecCanonical rest
  | _ :: rest => SpecCanonical rest

theorem SpecCanonical.tail {p : Piece} {ps : List Piece} (h : SpecCanonical (p :: ps)) : SpecCanonical ps := by
  cases p <;> simp_all [SpecCanonical]

/-- The loop of `format_string` on a printed canonical derivation (placeholders with or without spec) returns its
formats and consumes everything, with any fuel above the length. -/
theorem formatLoop_render' (cc : CharClasses) (hs : Sane cc) (h2 : Sane2 cc) :
    ∀ (ps : List Piece) (fuel : Nat), (renderAll ps).length < fuel → Canonical ps →
      (∀ p ∈ ps, p.WF cc) → SpecCanonical ps → formatLoop cc fuel (renderAll ps) = (formatsOf ps, []) := by
  intro ps
  induction ps with
  | nil =>
    intro fuel _ _ _ _
    cases fuel with
    | zero => rfl
    | succ f => simp [renderAll, formatLoop, maybeFormat_nil, text_nil, formatsOf]
  | cons p ps ih =>
    intro fuel hfuel hcan hwf hsc
    have hp := hwf p (by simp)
    have hrest : ∀ q ∈ ps, q.WF cc := fun q hq => hwf q (by simp [hq])
    have hcons : renderAll (p :: ps) = p.render ++ renderAll ps := by simp [renderAll]
    cases fuel with
    | zero => omega
    | succ f =>
      rw [hcons] at hfuel ⊢
      have hlen : (renderAll ps).length < f ∨ p.render = [] := by
        rw [List.length_append] at hfuel
        by_cases h0 : p.render = []
        · exact Or.inr h0
        · have : 0 < p.render.length := List.length_pos_iff.mpr h0
          exact Or.inl (by omega)
      cases p with
      | lbrace =>
        have hl : (renderAll ps).length < f := by
          rcases hlen with h | h
          · exact h
          · simp [Piece.render] at h
        simp only [Piece.render, List.cons_append, List.nil_append, formatLoop, maybeFormat]
        rw [ih f hl hcan.tail hrest hsc.tail]
        simp [formatsOf]
      | rbrace =>
        have hl : (renderAll ps).length < f := by
          rcases hlen with h | h
          · exact h
          · simp [Piece.render] at h
        simp only [Piece.render, List.cons_append, List.nil_append, formatLoop, maybeFormat]
        rw [ih f hl hcan.tail hrest hsc.tail]
        simp [formatsOf]
      | ph q =>
        have hl : (renderAll ps).length < f := by
          rcases hlen with h | h
          · exact h
          · simp [Piece.render, PhA.render] at h
        have hq : q.WF cc := hp
        have hal : q.AlignOk (renderAll ps) := hsc.1
        simp only [Piece.render, formatLoop]
        rw [maybeFormat_ph' cc hs h2 q hq (renderAll ps) hal]
        simp only
        rw [ih f hl hcan.tail hrest hsc.tail]
        simp [formatsOf]
      | text cs =>
        have hcs : cs ≠ [] ∧ ∀ c ∈ cs, isBrace c = false := hp
        have hl : (renderAll ps).length < f := by
          rcases hlen with h | h
          · exact h
          · exact (hcs.1 (by simpa [Piece.render] using h)).elim
        -- what follows a text piece is brace-led or the end
        have hnext : ∀ h t, renderAll ps = h :: t → isBrace h = true := by
          intro h t e
          cases ps with
          | nil => simp [renderAll] at e
          | cons q qs =>
            have hled : q.isBraceLed = true := by
              cases q with
              | text ds => simp [Canonical] at hcan
              | _ => rfl
            obtain ⟨b, t', hb, hbr⟩ := render_head_brace qs q hled
            rw [hb] at e; cases e; exact hbr
        have hmf : maybeFormat cc (cs ++ renderAll ps) = none := by
          cases cs with
          | nil => exact (hcs.1 rfl).elim
          | cons c cs' =>
            have hc : isBrace c = false := hcs.2 c (by simp)
            have hc1 : c ≠ '{' := by intro e; subst e; simp [isBrace] at hc
            have hc2 : c ≠ '}' := by intro e; subst e; simp [isBrace] at hc
            unfold maybeFormat
            split
            · next r e => exact (hc1 (List.cons.inj e).1).elim
            · next r e => exact (hc2 (List.cons.inj e).1).elim
            · have : format cc ((c :: cs') ++ renderAll ps) = none := by
                unfold format
                split
                · next s0 e => exact (hc1 (List.cons.inj e).1).elim
                · rfl
              rw [this]
        simp only [Piece.render, formatLoop, hmf, text_stops cs (renderAll ps) hcs.1 hcs.2 hnext]
        rw [ih f hl hcan.tail hrest hsc.tail]
        simp [formatsOf]


end Dm.Fmt

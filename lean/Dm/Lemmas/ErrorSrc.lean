import Dm.Model.ErrorSpec
set_option linter.unusedSimpArgs false

namespace Dm.Err

theorem zeroOrOne_map {α β : Type} (f : α → β) (l : List α) :
    zeroOrOne (l.map f) = (zeroOrOne l).map (Option.map f) := by
  rcases l with _ | ⟨a, _ | ⟨b, r⟩⟩ <;> rfl

theorem zipIdx_getElem {α : Type} (l : List α) (x : α × Nat) (h : x ∈ l.zipIdx) : l[x.2]? = some x.1 := by
  have := List.mem_zipIdx_iff_getElem?.1 (by simpa using h : (x.1, x.2) ∈ l.zipIdx)
  simpa using this

end Dm.Err

namespace Dm.Err

theorem filter_zipIdx_fst {α : Type} (l : List α) (p : α → Bool) :
    (l.zipIdx.filter fun x => p x.1).map Prod.fst = l.filter p := by
  have h : l.zipIdx.map Prod.fst = l := by simp
  conv => rhs; rw [← h]
  rw [List.filter_map]
  rfl

/-- Selecting among the enabled fields by *enabled position* and converting that position back
yields the same all-field position as selecting among (position, field) pairs directly. -/
theorem zeroOrOne_zipIdx (l : List (Nat × FieldE)) (p : (Nat × FieldE) → Bool) :
    (zeroOrOne (l.zipIdx.filter fun x => p x.1)).map
        (fun r => r.bind fun x => (l[x.2]?).map (·.1))
      = (zeroOrOne ((l.filter p).map (·.1))).map id := by
  rw [← filter_zipIdx_fst l p, List.map_map, zeroOrOne_map]
  generalize hE : (l.zipIdx.filter fun x => p x.1) = E
  have hmem : ∀ x ∈ E, l[x.2]? = some x.1 := by
    intro x hx
    rw [← hE] at hx
    exact zipIdx_getElem l x (List.mem_filter.1 hx).1
  rcases E with _ | ⟨a, _ | ⟨b, r⟩⟩
  · rfl
  · have := hmem a (by simp)
    simp [zeroOrOne, Except.map, pure, Except.pure, this]
  · rfl

end Dm.Err

namespace Dm.Err

theorem parseField_spec (sh : Shape) (w : Which) :
    (parseField sh w).map (fun k => k.bind (allIdx sh))
      = pick (explicitCands sh w) (inferredCands sh w) := by
  unfold parseField explicitCands inferredCands allIdx
  generalize hl : enabledFields sh = l
  let P : (Nat × FieldE) → Bool := fun x => decide (w.value (metaOf x.2.attr) = some true)
  let Q : (Nat × FieldE) → Bool := fun x =>
    w.value (metaOf x.2.attr) = none && validDefault sh.named w x.2 sh.fields.length
  have hP : (l.filter fun x => decide (w.value (metaOf x.2.attr) = some true)).map (·.1)
      = ((l.zipIdx.filter fun x => P x.1).map Prod.fst).map (·.1) := by
    rw [filter_zipIdx_fst l P]
  have hQ : (l.filter fun x =>
        w.value (metaOf x.2.attr) = none && validDefault sh.named w x.2 sh.fields.length).map (·.1)
      = ((l.zipIdx.filter fun x => Q x.1).map Prod.fst).map (·.1) := by
    rw [filter_zipIdx_fst l Q]
  simp only [hP, hQ]
  generalize hE : (l.zipIdx.filter fun x => P x.1) = E
  generalize hI : (l.zipIdx.filter fun x => Q x.1) = I
  have hmemE : ∀ x ∈ E, l[x.2]? = some x.1 := by
    intro x hx; rw [← hE] at hx; exact zipIdx_getElem l x (List.mem_filter.1 hx).1
  have hmemI : ∀ x ∈ I, l[x.2]? = some x.1 := by
    intro x hx; rw [← hI] at hx; exact zipIdx_getElem l x (List.mem_filter.1 hx).1
  rcases E with _ | ⟨a, _ | ⟨b, r⟩⟩
  · rcases I with _ | ⟨c, _ | ⟨d, r'⟩⟩
    · rfl
    · have := hmemI c (by simp)
      simp [zeroOrOne, pick, Except.map, pure, Except.pure, bind, Except.bind, this]
    · rfl
  · have := hmemE a (by simp)
    simp [zeroOrOne, pick, Except.map, pure, Except.pure, bind, Except.bind, this]
  · rfl

end Dm.Err

namespace Dm.Err

theorem findIdx?_getElem {α : Type} (l : List α) (p : α → Bool) :
    (l.findIdx? p).bind (fun k => l[k]?) = l.find? p := by
  induction l with
  | nil => rfl
  | cons a t ih =>
    rw [List.findIdx?_cons, List.find?_cons]
    by_cases h : p a = true
    · simp [h]
    · simp only [h, Bool.false_eq_true, if_false]
      rw [← ih]
      cases t.findIdx? p <;> simp

theorem parseField_valid (sh : Shape) (w : Which) (k : Nat) :
    parseField sh w = .ok (some k) → ∃ x, (enabledFields sh)[k]? = some x := by
  unfold parseField
  generalize hl : enabledFields sh = l
  generalize hE : (l.zipIdx.filter fun x => decide (w.value (metaOf x.1.2.attr) = some true)) = E
  generalize hI : (l.zipIdx.filter fun x =>
    w.value (metaOf x.1.2.attr) = none && validDefault sh.named w x.1.2 sh.fields.length) = I
  have hmemE : ∀ x ∈ E, l[x.2]? = some x.1 := by
    intro x hx; rw [← hE] at hx; exact zipIdx_getElem l x (List.mem_filter.1 hx).1
  have hmemI : ∀ x ∈ I, l[x.2]? = some x.1 := by
    intro x hx; rw [← hI] at hx; exact zipIdx_getElem l x (List.mem_filter.1 hx).1
  intro h
  simp only [zeroOrOne, pure, Except.pure, bind, Except.bind] at h
  rw [hE, hI] at h
  rcases E with _ | ⟨a, _ | ⟨b, r⟩⟩
  · rcases I with _ | ⟨c, _ | ⟨d, r'⟩⟩
    · simp [zeroOrOne, pure, Except.pure, bind, Except.bind] at h
    · simp [zeroOrOne, pure, Except.pure, bind, Except.bind] at h
      subst h
      exact ⟨c.1, hmemI c (by simp)⟩
    · simp [zeroOrOne, pure, Except.pure, bind, Except.bind, throw, throwThe, MonadExceptOf.throw] at h
  · simp [zeroOrOne, pure, Except.pure, bind, Except.bind] at h
    subst h
    exact ⟨a.1, hmemE a (by simp)⟩
  · simp [zeroOrOne, pure, Except.pure, bind, Except.bind, throw, throwThe, MonadExceptOf.throw] at h

/-- The inference for two-field tuples agrees with its all-positions reading. -/
theorem inferSource_spec (sh : Shape) (b : Option Nat) :
    (inferSource sh b).bind (allIdx sh) = otherOfTwo sh (b.bind (allIdx sh)) := by
  unfold inferSource otherOfTwo
  by_cases hlen : sh.fields.length ≠ 2
  · simp [hlen]
  · simp only [hlen, if_false]
    cases b with
    | none => rfl
    | some bk =>
      simp only [Option.bind]
      cases hb : allIdx sh bk with
      | none => rfl
      | some bAll =>
        simp only
        have key := findIdx?_getElem (enabledFields sh) (fun x => decide (x.1 = (bAll + 1) % 2))
        cases hfi : (enabledFields sh).findIdx? (fun x => decide (x.1 = (bAll + 1) % 2)) with
        | none =>
          rw [hfi] at key
          simp only [Option.bind] at key
          have hfi' : (enabledFields sh).findIdx? (fun (x : Nat × FieldE) =>
              match x with | (i, _) => decide (i = (bAll + 1) % 2)) = none := hfi
          have key' : (enabledFields sh).find? (fun (x : Nat × FieldE) =>
              match x with | (i, _) => decide (i = (bAll + 1) % 2)) = none := key.symm
          simp [hfi', key']
        | some k =>
          rw [hfi] at key
          simp only [Option.bind] at key
          have hfi' : (enabledFields sh).findIdx? (fun (x : Nat × FieldE) =>
              match x with | (i, _) => decide (i = (bAll + 1) % 2)) = some k := hfi
          have key' : (enabledFields sh).find? (fun (x : Nat × FieldE) =>
              match x with | (i, _) => decide (i = (bAll + 1) % 2)) = (enabledFields sh)[k]? := key.symm
          simp only [hfi', key']
          cases hk : (enabledFields sh)[k]? with
          | none => rfl
          | some x =>
            obtain ⟨i, f⟩ := x
            have hi : i = (bAll + 1) % 2 := by
              have := List.find?_some (key'.trans hk)
              simpa using this
            by_cases hs : (metaOf f.attr).source ≠ some false
            · simp [hs, allIdx, hk, hi]
            · simp [hs]

end Dm.Err

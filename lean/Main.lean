import Dm.Driver.FmtCmd
import Dm.Driver.FmtXCmd
import Dm.Driver.SplitCmd
import Dm.Driver.ErrCmd
import Dm.Driver.TfCmd
import Dm.Driver.FsCmd
import Dm.Driver.DtCmd
import Dm.Driver.OpsCmd
import Dm.Driver.ConvCmd
import Dm.Driver.VarCmd
import Dm.Driver.DelCmd
import Dm.Driver.BytesCmd
import Dm.Driver.LegacyCmd
import Dm.Driver.GnCmd
import Dm.Driver.TaCmd
import Dm.Driver.FcCmd

/- Line-protocol driver of the Lean model: one request per line, one answer per line. -/

def handle (line : String) : String :=
  let l := line.trimAscii.toString
  if l.startsWith "dv " then Dm.DtCmd.cmdDv (l.drop 3).toString else
  if l.startsWith "fx " then Dm.FmtXCmd.cmdFx (l.drop 3).toString else
  if l.startsWith "fc " then Dm.FcCmd.cmdFc (l.drop 3).toString else
  if l.startsWith "ta " then Dm.TaCmd.cmdTa (l.drop 3).toString else
  if l.startsWith "gn " then Dm.GnCmd.cmdGn (l.drop 3).toString else
  if l.startsWith "la " then Dm.LegacyCmd.cmdLa (l.drop 3).toString else
  if l.startsWith "dl " then Dm.DelCmd.cmdDl (l.drop 3).toString else
  if l.startsWith "va " then Dm.VarCmd.cmdVa (l.drop 3).toString else
  if l.startsWith "cv " then Dm.ConvCmd.cmdCv (l.drop 3).toString else
  if l.startsWith "op " then Dm.OpsCmd.cmdOp (l.drop 3).toString else
  if l.startsWith "tf " then Dm.TfCmd.cmdTf (l.drop 3).toString else
  if l.startsWith "sp " then Dm.SplitCmd.cmdSplit (l.drop 3).toString else
  match l.splitOn " " with
  | "fmt" :: args => Dm.FmtCmd.cmdFmt args
  | "std" :: args => Dm.FmtCmd.cmdStd args
  | "es" :: args => Dm.ErrCmd.cmdEs args
  | "fs" :: args => Dm.FsCmd.cmdFs args
  | "dt" :: args => Dm.DtCmd.cmdDt args
  | "bc" :: args => Dm.BytesCmd.cmdBc args
  | "fd" :: args => Dm.FcCmd.cmdFd args
  | _ => "bad-op"

partial def loop (h : IO.FS.Stream) (out : IO.FS.Stream) : IO Unit := do
  let line ← h.getLine
  if line.isEmpty then return ()
  if line.trimAscii.toString.isEmpty then loop h out else
  out.putStrLn (handle line)
  loop h out

def main : IO Unit := do
  let out ← IO.getStdout
  loop (← IO.getStdin) out
  out.flush

import Dm.Driver.HygCmd
import Dm.Driver.CfgCmd

/- Line-protocol driver for the models over regenerated tables (`Dm/Gen/*`). -/

def handleGen (line : String) : String :=
  let l := line.trimAscii.toString
  match Dm.HygCmd.cmd l with
  | some a => a
  | none =>
    match Dm.CfgCmd.cmd l with
    | some a => a
    | none => "bad-op"

partial def loopGen (h : IO.FS.Stream) (out : IO.FS.Stream) : IO Unit := do
  let line ← h.getLine
  if line.isEmpty then return ()
  out.putStrLn (handleGen line)
  out.flush
  loopGen h out

def main : IO Unit := do loopGen (← IO.getStdin) (← IO.getStdout)

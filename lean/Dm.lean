import Dm.Model.FmtParse
import Dm.Model.StdFmt
import Dm.Model.TyGen
import Dm.Model.FmtAttr
import Dm.Model.FmtExpand

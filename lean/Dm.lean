-- This module serves as the root of the `Dm` library.
-- Import modules here that should be built as part of the library.
import Dm.Basic

import Dm.Model.FmtParse
import Dm.Model.StdFmt

/verif/harness/target-rt/debug/dmv-rt: /repo/src/fmt.rs /verif/harness/rt/src/main.rs

/verif/harness/target-syn/debug/dmv-oracle-syn: /verif/harness/oracle_syn/src/main.rs

//! Oracle: rustc's own format-string parser (`rustc_parse_format`, nightly, rustc_private).
//! Line protocol: `fmt <hex utf8>` -> `ok F(..) F(..) | ph=P(..) ..` or `err <first error>`.
//! `xid` -> compares unicode-xid free: prints nothing (tables are compared elsewhere).
#![feature(rustc_private)]
extern crate rustc_driver;
extern crate rustc_lexer;
extern crate rustc_parse_format;

use std::io::{self, BufRead, Write};

use rustc_parse_format::{
    Alignment, Count, DebugHex, ParseMode, Parser, Piece, Position, Sign,
};

fn hex_decode(s: &str) -> Option<String> {
    if s == "-" {
        return Some(String::new());
    }
    if s.len() % 2 != 0 {
        return None;
    }
    let mut bytes = Vec::new();
    for i in (0..s.len()).step_by(2) {
        bytes.push(u8::from_str_radix(s.get(i..i + 2)?, 16).ok()?);
    }
    String::from_utf8(bytes).ok()
}

fn hex_encode(s: &str) -> String {
    if s.is_empty() {
        return "-".into();
    }
    s.bytes().map(|b| format!("{b:02x}")).collect()
}

fn show_count(c: &Count<'_>) -> String {
    match c {
        Count::CountIs(n) => format!("i{n}"),
        Count::CountIsName(n, _) => format!("pn{}", hex_encode(n)),
        Count::CountIsParam(i) => format!("pi{i}"),
        Count::CountIsStar(_) => "*".into(),
        Count::CountImplied => "-".into(),
    }
}

fn cmd_fmt(arg: &str) -> String {
    let Some(s) = hex_decode(arg) else {
        return "bad-op".into();
    };
    let mut p = Parser::new(&s, None, None, false, ParseMode::Format);
    let pieces: Vec<Piece<'_>> = (&mut p).collect();
    if let Some(e) = p.errors.first() {
        return format!("err {}", e.description.replace('\n', " "));
    }
    let mut fs = Vec::new();
    let mut ps = Vec::new();
    for piece in &pieces {
        let Piece::NextArgument(a) = piece else { continue };
        let f = &a.format;
        let arg = match a.position {
            Position::ArgumentImplicitlyIs(_) => "-".to_string(),
            Position::ArgumentIs(i) => format!("i{i}"),
            Position::ArgumentNamed(n) => format!("n{}", hex_encode(n)),
        };
        let parg = match a.position {
            Position::ArgumentImplicitlyIs(i) | Position::ArgumentIs(i) => format!("i{i}"),
            Position::ArgumentNamed(n) => format!("n{}", hex_encode(n)),
        };
        let al = match f.align {
            Alignment::AlignUnknown => None,
            Alignment::AlignLeft => Some("L"),
            Alignment::AlignCenter => Some("C"),
            Alignment::AlignRight => Some("R"),
        };
        let al_s = match (al, f.fill) {
            (None, None) => "-".to_string(),
            (Some(a), None) => a.to_string(),
            (Some(a), Some(c)) => format!("{a}.{:x}", c as u32),
            (None, Some(c)) => format!("?.{:x}", c as u32),
        };
        let sg = match f.sign {
            None => "-",
            Some(Sign::Plus) => "P",
            Some(Sign::Minus) => "M",
        };
        let (ty, tr) = match (f.ty, f.debug_hex) {
            ("", None) => ("Display".to_string(), "Display"),
            ("?", None) => ("Debug".to_string(), "Debug"),
            ("?", Some(DebugHex::Lower)) => ("LowerDebug".to_string(), "Debug"),
            ("?", Some(DebugHex::Upper)) => ("UpperDebug".to_string(), "Debug"),
            ("o", None) => ("Octal".to_string(), "Octal"),
            ("x", None) => ("LowerHex".to_string(), "LowerHex"),
            ("X", None) => ("UpperHex".to_string(), "UpperHex"),
            ("p", None) => ("Pointer".to_string(), "Pointer"),
            ("b", None) => ("Binary".to_string(), "Binary"),
            ("e", None) => ("LowerExp".to_string(), "LowerExp"),
            ("E", None) => ("UpperExp".to_string(), "UpperExp"),
            (t, _) => return format!("err unknown format trait {}", hex_encode(t)),
        };
        let w = show_count(&f.width);
        let pr = show_count(&f.precision);
        let mods = al.is_some()
            || f.fill.is_some()
            || f.sign.is_some()
            || f.alternate
            || f.zero_pad
            || f.debug_hex.is_some()
            || w != "-"
            || pr != "-";
        fs.push(format!(
            "F({arg};al={al_s},sg={sg},alt={},zp={},w={w},p={pr},ty={ty})",
            f.alternate as u8, f.zero_pad as u8
        ));
        ps.push(format!("P({parg},{},{tr})", mods as u8));
    }
    let lits = pieces.iter().filter(|p| matches!(p, Piece::Lit(_))).count();
    format!("ok {} | ph={} | pieces={} lits={}", fs.join(" "), ps.join(" "), pieces.len(), lits)
}

/// `lex <hex>`: per character `s` (id start incl. `_`), `c` (id continue), `w` whitespace, `-`.
fn cmd_lex(arg: &str) -> String {
    let Some(s) = hex_decode(arg) else {
        return "bad-op".into();
    };
    s.chars()
        .map(|c| {
            format!(
                "{}{}{}",
                if rustc_lexer::is_id_start(c) { 's' } else { '-' },
                if rustc_lexer::is_id_continue(c) { 'c' } else { '-' },
                if c.is_whitespace() { 'w' } else { '-' }
            )
        })
        .collect::<Vec<_>>()
        .join(",")
}

/// `xidtable`: every scalar value where rustc_lexer's classes are set, as ranges (for comparison
/// with the `unicode-xid` crate used by derive_more).
fn cmd_table() -> String {
    let mut out = String::new();
    for (name, f) in [
        ("start", rustc_lexer::is_id_start as fn(char) -> bool),
        ("cont", rustc_lexer::is_id_continue as fn(char) -> bool),
    ] {
        let mut h: u64 = 0xcbf29ce484222325;
        let mut n = 0u32;
        for u in 0..=0x10FFFFu32 {
            if let Some(c) = char::from_u32(u) {
                if f(c) {
                    n += 1;
                    h = (h ^ u as u64).wrapping_mul(0x100000001b3);
                }
            }
        }
        out.push_str(&format!("{name}:{n}:{h:x} "));
    }
    out
}

fn main() {
    let stdin = io::stdin();
    let stdout = io::stdout();
    let mut out = io::BufWriter::new(stdout.lock());
    for line in stdin.lock().lines() {
        let Ok(line) = line else { break };
        let line = line.trim();
        if line.is_empty() {
            continue;
        }
        let (cmd, rest) = line.split_once(' ').unwrap_or((line, ""));
        let ans = match cmd {
            "fmt" => std::panic::catch_unwind(|| cmd_fmt(rest.trim()))
                .unwrap_or_else(|_| "err panic".into()),
            "lex" => cmd_lex(rest.trim()),
            "xidtable" => cmd_table(),
            _ => "bad-op".into(),
        };
        let _ = writeln!(out, "{ans}");
    }
    let _ = out.flush();
}

//! Oracle: Rust's own expression grammar as implemented by syn with the `full` feature.
//! `split <hex source>`: parses `[alias =] expr, [alias =] expr, ...` (optional trailing comma)
//! the way `format_args!` does and prints `ok [alias|tokens|ident]...` or `err <msg>`.
//! `toks <hex source>`: prints the token trees as the s-expression the Lean driver reads.
use std::io::{self, BufRead, Write};

use proc_macro2::{Delimiter, Spacing, TokenStream, TokenTree};
use quote::ToTokens;
use syn::{parse::Parser, Token};

fn hex_decode(s: &str) -> Option<String> {
    if s == "-" {
        return Some(String::new());
    }
    if s.len() % 2 != 0 {
        return None;
    }
    let mut bytes = Vec::new();
    for i in (0..s.len()).step_by(2) {
        bytes.push(u8::from_str_radix(s.get(i..i + 2)?, 16).ok()?);
    }
    String::from_utf8(bytes).ok()
}

fn hex_encode(s: &str) -> String {
    if s.is_empty() {
        return "-".into();
    }
    s.bytes().map(|b| format!("{b:02x}")).collect()
}

fn sexp(ts: TokenStream, out: &mut String) {
    for tt in ts {
        match tt {
            TokenTree::Ident(i) => out.push_str(&format!("(i {}) ", hex_encode(&i.to_string()))),
            TokenTree::Literal(l) => out.push_str(&format!("(l {}) ", hex_encode(&l.to_string()))),
            TokenTree::Punct(p) => out.push_str(&format!(
                "(p {} {}) ",
                hex_encode(&p.as_char().to_string()),
                if p.spacing() == Spacing::Joint { "j" } else { "a" }
            )),
            TokenTree::Group(g) => {
                let d = match g.delimiter() {
                    Delimiter::Parenthesis => "P",
                    Delimiter::Bracket => "B",
                    Delimiter::Brace => "C",
                    Delimiter::None => "N",
                };
                out.push_str(&format!("(g {d} "));
                sexp(g.stream(), out);
                out.push_str(") ");
            }
        }
    }
}

fn cmd_toks(arg: &str) -> String {
    let Some(src) = hex_decode(arg) else { return "bad-op".into() };
    let Ok(ts) = src.parse::<TokenStream>() else { return "lexerr".into() };
    let mut out = String::from("(toks ");
    sexp(ts, &mut out);
    out.push(')');
    out
}

/// Grammar constructs an argument contains (used to attribute a wrong split to a known finding).
#[derive(Default)]
struct Features {
    bitor: bool,
    cast_generic: bool,
    arrow_in_generics: bool,
    gt_then_global_path: bool,
    depth: usize,
}

impl Features {
    fn list(&self) -> String {
        let mut v = Vec::new();
        if self.bitor {
            v.push("bitor");
        }
        if self.cast_generic {
            v.push("cast_generic");
        }
        if self.arrow_in_generics {
            v.push("arrow_in_generics");
        }
        if self.gt_then_global_path {
            v.push("gt_then_global_path");
        }
        v.join("+")
    }
}

impl<'ast> syn::visit::Visit<'ast> for Features {
    fn visit_expr_binary(&mut self, e: &'ast syn::ExprBinary) {
        if matches!(e.op, syn::BinOp::BitOr(_) | syn::BinOp::BitOrAssign(_)) {
            self.bitor = true;
        }
        // `.. > ::path` / `.. >= ::path` / `.. >> ::path`: a `>` directly followed by the `::` of a global path; together
        // with a `<` in an earlier argument it looks like `<..>::` to a scanner that pairs angle brackets
        if matches!(e.op, syn::BinOp::Gt(_) | syn::BinOp::Ge(_) | syn::BinOp::Shr(_) | syn::BinOp::ShrAssign(_)) {
            let mut it = e.right.to_token_stream().into_iter();
            let (a, b) = (it.next(), it.next());
            if matches!(a, Some(TokenTree::Punct(ref p)) if p.as_char() == ':')
                && matches!(b, Some(TokenTree::Punct(ref p)) if p.as_char() == ':')
            {
                self.gt_then_global_path = true;
            }
        }
        syn::visit::visit_expr_binary(self, e);
    }
    fn visit_expr_cast(&mut self, e: &'ast syn::ExprCast) {
        if e.ty.to_token_stream().to_string().contains('<') {
            self.cast_generic = true;
        }
        syn::visit::visit_expr_cast(self, e);
    }
    fn visit_angle_bracketed_generic_arguments(&mut self, a: &'ast syn::AngleBracketedGenericArguments) {
        self.depth += 1;
        syn::visit::visit_angle_bracketed_generic_arguments(self, a);
        self.depth -= 1;
    }
    fn visit_qself(&mut self, q: &'ast syn::QSelf) {
        self.depth += 1;
        syn::visit::visit_qself(self, q);
        self.depth -= 1;
    }
    fn visit_return_type(&mut self, r: &'ast syn::ReturnType) {
        if self.depth > 0 && matches!(r, syn::ReturnType::Type(..)) {
            self.arrow_in_generics = true;
        }
        syn::visit::visit_return_type(self, r);
    }
}

fn cmd_split(arg: &str) -> String {
    let Some(src) = hex_decode(arg) else { return "bad-op".into() };
    let Ok(ts) = src.parse::<TokenStream>() else { return "lexerr".into() };
    let parser = |input: syn::parse::ParseStream<'_>| -> syn::Result<Vec<(Option<syn::Ident>, syn::Expr)>> {
        let mut out = Vec::new();
        while !input.is_empty() {
            let alias = if input.peek(syn::Ident) && input.peek2(Token![=]) && !input.peek2(Token![==]) {
                let i: syn::Ident = input.parse()?;
                let _: Token![=] = input.parse()?;
                Some(i)
            } else {
                None
            };
            let e: syn::Expr = input.parse()?;
            out.push((alias, e));
            if input.is_empty() {
                break;
            }
            let _: Token![,] = input.parse()?;
        }
        Ok(out)
    };
    match parser.parse2(ts) {
        Err(e) => format!("err {}", e.to_string().replace('\n', " ")),
        Ok(args) => {
            let mut s = format!("ok n={}\u{1d}args=", args.len());
            for (k, (alias, e)) in args.iter().enumerate() {
                if k > 0 {
                    s.push('\u{1e}');
                }
                let ident = match e {
                    syn::Expr::Path(p) if p.attrs.is_empty() && p.qself.is_none() => {
                        p.path.get_ident().map(|i| i.to_string()).unwrap_or_default()
                    }
                    // `true` / `false` are identifiers at the token level
                    syn::Expr::Lit(syn::ExprLit { lit: syn::Lit::Bool(b), .. }) => b.value.to_string(),
                    _ => String::new(),
                };
                let mut f = Features::default();
                syn::visit::Visit::visit_expr(&mut f, e);
                s.push_str(&format!(
                    "{}\u{1f}{}\u{1f}{}\u{1f}{}",
                    alias.as_ref().map(|a| a.to_string()).unwrap_or_default(),
                    e.to_token_stream().to_string().replace('\n', " "),
                    ident,
                    f.list()
                ));
            }
            s
        }
    }
}

fn main() {
    let stdin = io::stdin();
    let stdout = io::stdout();
    let mut out = io::BufWriter::new(stdout.lock());
    for line in stdin.lock().lines() {
        let Ok(line) = line else { break };
        let line = line.trim();
        if line.is_empty() {
            continue;
        }
        let (cmd, rest) = line.split_once(' ').unwrap_or((line, ""));
        let ans = match cmd {
            "split" => std::panic::catch_unwind(|| cmd_split(rest.trim())).unwrap_or_else(|_| "err panic".into()),
            "toks" => cmd_toks(rest.trim()),
            _ => "bad-op".into(),
        };
        let _ = writeln!(out, "{ans}");
    }
    let _ = out.flush();
}

//! Translator front end: reads every `.rs` file under the given directory and prints, as JSON lines,
//! every `quote!` / `quote_spanned!` / `parse_quote!` / `parse_quote_spanned!` / `format_ident!`
//! invocation (found by scanning the token trees, so nested ones and ones inside other macros are
//! included) with its token tree, interpolations resolved (`#x` -> ["v",x], `#(..)sep*` -> ["r",..]).
//! `translate templates <dir>`  |  `translate tokens <file>` (whole file as a token tree)
use std::{env, fs, path::Path};

use proc_macro2::{Delimiter, Spacing, TokenStream, TokenTree};

fn js(s: &str) -> String {
    let mut o = String::from("\"");
    for c in s.chars() {
        match c {
            '"' => o.push_str("\\\""),
            '\\' => o.push_str("\\\\"),
            '\n' => o.push_str("\\n"),
            '\t' => o.push_str("\\t"),
            '\r' => o.push_str("\\r"),
            c if (c as u32) < 0x20 => o.push_str(&format!("\\u{:04x}", c as u32)),
            c => o.push(c),
        }
    }
    o.push('"');
    o
}

fn delim(d: Delimiter) -> &'static str {
    match d {
        Delimiter::Parenthesis => "(",
        Delimiter::Brace => "{",
        Delimiter::Bracket => "[",
        Delimiter::None => "",
    }
}

/// Token trees of a template body with quote's interpolation syntax recognised.
fn body(ts: TokenStream, interp: bool, out: &mut Vec<String>) {
    let toks: Vec<TokenTree> = ts.into_iter().collect();
    let mut i = 0;
    while i < toks.len() {
        match &toks[i] {
            TokenTree::Punct(p) if interp && p.as_char() == '#' => {
                match toks.get(i + 1) {
                    Some(TokenTree::Ident(id)) => {
                        out.push(format!("[\"v\",{}]", js(&id.to_string())));
                        i += 2;
                        continue;
                    }
                    Some(TokenTree::Group(g)) if g.delimiter() == Delimiter::Parenthesis => {
                        // `#( .. ) sep? *`
                        let mut j = i + 2;
                        let mut sep = String::new();
                        let mut is_rep = false;
                        if let Some(TokenTree::Punct(q)) = toks.get(j) {
                            if q.as_char() == '*' {
                                is_rep = true;
                            } else if let Some(TokenTree::Punct(r)) = toks.get(j + 1) {
                                if r.as_char() == '*' {
                                    sep = q.as_char().to_string();
                                    is_rep = true;
                                    j += 1;
                                }
                            }
                        }
                        if is_rep {
                            let mut inner = Vec::new();
                            body(g.stream(), interp, &mut inner);
                            out.push(format!("[\"r\",{},[{}]]", js(&sep), inner.join(",")));
                            i = j + 1;
                            continue;
                        }
                    }
                    _ => {}
                }
                out.push(format!("[\"p\",\"#\",{}]", p.spacing() == Spacing::Joint));
                i += 1;
            }
            TokenTree::Punct(p) => {
                out.push(format!("[\"p\",{},{}]", js(&p.as_char().to_string()), p.spacing() == Spacing::Joint));
                i += 1;
            }
            TokenTree::Ident(id) => {
                out.push(format!("[\"i\",{}]", js(&id.to_string())));
                i += 1;
            }
            TokenTree::Literal(l) => {
                out.push(format!("[\"l\",{}]", js(&l.to_string())));
                i += 1;
            }
            TokenTree::Group(g) => {
                let mut inner = Vec::new();
                body(g.stream(), interp, &mut inner);
                out.push(format!("[\"g\",{},[{}]]", js(delim(g.delimiter())), inner.join(",")));
                i += 1;
            }
        }
    }
}

const MACROS: &[&str] = &["quote", "quote_spanned", "parse_quote", "parse_quote_spanned", "format_ident"];

fn scan(file: &str, ts: TokenStream, out: &mut Vec<String>) {
    let toks: Vec<TokenTree> = ts.into_iter().collect();
    let mut i = 0;
    while i < toks.len() {
        if let (Some(TokenTree::Ident(id)), Some(TokenTree::Punct(p)), Some(TokenTree::Group(g))) =
            (toks.get(i), toks.get(i + 1), toks.get(i + 2))
        {
            let name = id.to_string();
            if p.as_char() == '!' && MACROS.contains(&name.as_str()) {
                let mut stream = g.stream();
                if name.ends_with("_spanned") {
                    // skip `<span expr> =>`
                    let inner: Vec<TokenTree> = stream.clone().into_iter().collect();
                    let mut k = 0;
                    while k + 1 < inner.len() {
                        if let (TokenTree::Punct(a), TokenTree::Punct(b)) = (&inner[k], &inner[k + 1]) {
                            if a.as_char() == '=' && a.spacing() == Spacing::Joint && b.as_char() == '>' {
                                break;
                            }
                        }
                        k += 1;
                    }
                    stream = inner.into_iter().skip(k + 2).collect();
                }
                let mut b = Vec::new();
                body(stream.clone(), name != "format_ident", &mut b);
                let start = id.span().start();
                let end = g.span().end();
                out.push(format!(
                    "{{\"file\":{},\"line\":{},\"end_line\":{},\"macro\":{},\"tokens\":[{}]}}",
                    js(file), start.line, end.line, js(&name), b.join(",")
                ));
                // nested templates inside this one (e.g. `quote!` in an interpolated expression) are rare,
                // but scan anyway
                scan(file, stream, out);
                i += 3;
                continue;
            }
        }
        if let TokenTree::Group(g) = &toks[i] {
            scan(file, g.stream(), out);
        }
        i += 1;
    }
}

fn walk(dir: &Path, files: &mut Vec<String>) {
    let mut entries: Vec<_> = fs::read_dir(dir).unwrap().map(|e| e.unwrap().path()).collect();
    entries.sort();
    for p in entries {
        if p.is_dir() {
            walk(&p, files);
        } else if p.extension().map(|e| e == "rs").unwrap_or(false) {
            files.push(p.to_string_lossy().to_string());
        }
    }
}

fn main() {
    let args: Vec<String> = env::args().collect();
    match args.get(1).map(|s| s.as_str()) {
        Some("templates") => {
            let root = &args[2];
            let mut files = Vec::new();
            walk(Path::new(root), &mut files);
            for f in files {
                let src = fs::read_to_string(&f).unwrap();
                let ts: TokenStream = match src.parse() {
                    Ok(t) => t,
                    Err(e) => {
                        println!("{{\"file\":{},\"error\":{}}}", js(&f), js(&e.to_string()));
                        continue;
                    }
                };
                let mut out = Vec::new();
                scan(&f, ts, &mut out);
                for l in out {
                    println!("{l}");
                }
            }
        }
        Some("tokens") => {
            let src = fs::read_to_string(&args[2]).unwrap();
            let ts: TokenStream = src.parse().unwrap();
            let mut b = Vec::new();
            body(ts, false, &mut b);
            println!("[{}]", b.join(","));
        }
        _ => eprintln!("usage: translate templates <dir> | tokens <file>"),
    }
}

//! Translator front end: reads every `.rs` file under the given directory and prints, as JSON lines,
//! every `quote!` / `quote_spanned!` / `parse_quote!` / `parse_quote_spanned!` / `format_ident!`
//! invocation (found by scanning the token trees, so nested ones and ones inside other macros are
//! included) with its token tree, interpolations resolved (`#x` -> ["v",x], `#(..)sep*` -> ["r",..]).
//! `translate templates <dir>`  |  `translate tokens <file>` (whole file as a token tree)
use std::{env, fs, path::Path};

use proc_macro2::{Delimiter, Spacing, TokenStream, TokenTree};

fn js(s: &str) -> String {
    let mut o = String::from("\"");
    for c in s.chars() {
        match c {
            '"' => o.push_str("\\\""),
            '\\' => o.push_str("\\\\"),
            '\n' => o.push_str("\\n"),
            '\t' => o.push_str("\\t"),
            '\r' => o.push_str("\\r"),
            c if (c as u32) < 0x20 => o.push_str(&format!("\\u{:04x}", c as u32)),
            c => o.push(c),
        }
    }
    o.push('"');
    o
}

fn delim(d: Delimiter) -> &'static str {
    match d {
        Delimiter::Parenthesis => "(",
        Delimiter::Brace => "{",
        Delimiter::Bracket => "[",
        Delimiter::None => "",
    }
}

/// Token trees of a template body with quote's interpolation syntax recognised.
fn body(ts: TokenStream, interp: bool, out: &mut Vec<String>) {
    let toks: Vec<TokenTree> = ts.into_iter().collect();
    let mut i = 0;
    while i < toks.len() {
        match &toks[i] {
            TokenTree::Punct(p) if interp && p.as_char() == '#' => {
                match toks.get(i + 1) {
                    Some(TokenTree::Ident(id)) => {
                        out.push(format!("[\"v\",{}]", js(&id.to_string())));
                        i += 2;
                        continue;
                    }
                    Some(TokenTree::Group(g)) if g.delimiter() == Delimiter::Parenthesis => {
                        // `#( .. ) sep? *`
                        let mut j = i + 2;
                        let mut sep = String::new();
                        let mut is_rep = false;
                        if let Some(TokenTree::Punct(q)) = toks.get(j) {
                            if q.as_char() == '*' {
                                is_rep = true;
                            } else if let Some(TokenTree::Punct(r)) = toks.get(j + 1) {
                                if r.as_char() == '*' {
                                    sep = q.as_char().to_string();
                                    is_rep = true;
                                    j += 1;
                                }
                            }
                        }
                        if is_rep {
                            let mut inner = Vec::new();
                            body(g.stream(), interp, &mut inner);
                            out.push(format!("[\"r\",{},[{}]]", js(&sep), inner.join(",")));
                            i = j + 1;
                            continue;
                        }
                    }
                    _ => {}
                }
                out.push(format!("[\"p\",\"#\",{}]", p.spacing() == Spacing::Joint));
                i += 1;
            }
            TokenTree::Punct(p) => {
                out.push(format!("[\"p\",{},{}]", js(&p.as_char().to_string()), p.spacing() == Spacing::Joint));
                i += 1;
            }
            TokenTree::Ident(id) => {
                out.push(format!("[\"i\",{}]", js(&id.to_string())));
                i += 1;
            }
            TokenTree::Literal(l) => {
                out.push(format!("[\"l\",{}]", js(&l.to_string())));
                i += 1;
            }
            TokenTree::Group(g) => {
                let mut inner = Vec::new();
                body(g.stream(), interp, &mut inner);
                out.push(format!("[\"g\",{},[{}]]", js(delim(g.delimiter())), inner.join(",")));
                i += 1;
            }
        }
    }
}

const MACROS: &[&str] = &["quote", "quote_spanned", "parse_quote", "parse_quote_spanned", "format_ident"];

fn scan(file: &str, ts: TokenStream, out: &mut Vec<String>) {
    let toks: Vec<TokenTree> = ts.into_iter().collect();
    let mut i = 0;
    while i < toks.len() {
        if let (Some(TokenTree::Ident(id)), Some(TokenTree::Punct(p)), Some(TokenTree::Group(g))) =
            (toks.get(i), toks.get(i + 1), toks.get(i + 2))
        {
            let name = id.to_string();
            if p.as_char() == '!' && MACROS.contains(&name.as_str()) {
                let mut stream = g.stream();
                if name.ends_with("_spanned") {
                    // skip `<span expr> =>`
                    let inner: Vec<TokenTree> = stream.clone().into_iter().collect();
                    let mut k = 0;
                    while k + 1 < inner.len() {
                        if let (TokenTree::Punct(a), TokenTree::Punct(b)) = (&inner[k], &inner[k + 1]) {
                            if a.as_char() == '=' && a.spacing() == Spacing::Joint && b.as_char() == '>' {
                                break;
                            }
                        }
                        k += 1;
                    }
                    stream = inner.into_iter().skip(k + 2).collect();
                }
                let mut b = Vec::new();
                body(stream.clone(), name != "format_ident", &mut b);
                let start = id.span().start();
                let end = g.span().end();
                out.push(format!(
                    "{{\"file\":{},\"line\":{},\"end_line\":{},\"macro\":{},\"tokens\":[{}]}}",
                    js(file), start.line, end.line, js(&name), b.join(",")
                ));
                // nested templates inside this one (e.g. `quote!` in an interpolated expression) are rare,
                // but scan anyway
                scan(file, stream, out);
                i += 3;
                continue;
            }
        }
        if let TokenTree::Group(g) = &toks[i] {
            scan(file, g.stream(), out);
        }
        i += 1;
    }
}

fn walk(dir: &Path, files: &mut Vec<String>) {
    let mut entries: Vec<_> = fs::read_dir(dir).unwrap().map(|e| e.unwrap().path()).collect();
    entries.sort();
    for p in entries {
        if p.is_dir() {
            walk(&p, files);
        } else if p.extension().map(|e| e == "rs").unwrap_or(false) {
            files.push(p.to_string_lossy().to_string());
        }
    }
}


// ---------------------------------------------------------------------------------------------
// `translate sites <dir>`: facts for C19 (hashed collections, hasher definitions, impure names).

const HASHED: &[&str] = &["HashMap", "HashSet"];
const IMPURE: &[&str] = &[
    "RandomState", "SystemTime", "Instant", "thread_rng", "getrandom", "thread_local", "lazy_static", "OnceCell",
    "OnceLock", "LazyLock", "LazyCell", "Mutex", "RwLock", "AtomicUsize", "AtomicU64", "AtomicU32", "AtomicBool",
    "AtomicIsize", "AtomicI64", "ThreadId", "temp_dir", "current_dir", "File", "read_to_string", "tracked_env",
    "tracked_path", "UNIX_EPOCH", "available_parallelism",
];

fn path_str(p: &syn::Path) -> String {
    let mut s = String::new();
    if p.leading_colon.is_some() {
        s.push_str("::");
    }
    for (i, seg) in p.segments.iter().enumerate() {
        if i > 0 {
            s.push_str("::");
        }
        s.push_str(&seg.ident.to_string());
    }
    s
}

fn use_leaves(prefix: &str, t: &syn::UseTree, out: &mut Vec<(String, String, usize)>) {
    match t {
        syn::UseTree::Path(p) => {
            let pre = if prefix.is_empty() { p.ident.to_string() } else { format!("{prefix}::{}", p.ident) };
            use_leaves(&pre, &p.tree, out)
        }
        syn::UseTree::Name(n) => {
            out.push((n.ident.to_string(), format!("{prefix}::{}", n.ident), n.ident.span().start().line))
        }
        syn::UseTree::Rename(r) => {
            out.push((r.rename.to_string(), format!("{prefix}::{}", r.ident), r.ident.span().start().line))
        }
        syn::UseTree::Glob(g) => out.push(("*".into(), format!("{prefix}::*"), g.star_token.span.start().line)),
        syn::UseTree::Group(g) => {
            for i in &g.items {
                use_leaves(prefix, i, out)
            }
        }
    }
}

struct SiteVisitor {
    uses: Vec<(String, String, usize)>,
    mentions: Vec<(String, String, usize)>, // (ident, written path, line)
    aliases: Vec<String>,
    hashers: Vec<String>,
    statics: Vec<(String, usize, bool)>,
}

impl<'ast> syn::visit::Visit<'ast> for SiteVisitor {
    fn visit_item_use(&mut self, u: &'ast syn::ItemUse) {
        let pre = if u.leading_colon.is_some() { "::" } else { "" };
        let mut leaves = Vec::new();
        use_leaves("", &u.tree, &mut leaves);
        for (n, p, l) in leaves {
            self.uses.push((n, format!("{pre}{p}"), l));
        }
    }
    fn visit_path(&mut self, p: &'ast syn::Path) {
        for seg in &p.segments {
            let id = seg.ident.to_string();
            if HASHED.contains(&id.as_str()) {
                self.mentions.push((id, path_str(p), seg.ident.span().start().line));
            }
        }
        syn::visit::visit_path(self, p);
    }
    fn visit_item_type(&mut self, t: &'ast syn::ItemType) {
        let id = t.ident.to_string();
        if HASHED.contains(&id.as_str()) {
            if let syn::Type::Path(tp) = &*t.ty {
                let last = tp.path.segments.last().unwrap();
                let mut args = Vec::new();
                if let syn::PathArguments::AngleBracketed(a) = &last.arguments {
                    for g in &a.args {
                        args.push(quote::ToTokens::to_token_stream(g).to_string().replace(' ', ""));
                    }
                }
                self.aliases.push(format!(
                    "{{\"name\":{},\"target\":{},\"args\":[{}],\"line\":{}}}",
                    js(&id), js(&path_str(&tp.path)), args.iter().map(|a| js(a)).collect::<Vec<_>>().join(","),
                    t.ident.span().start().line
                ));
            }
        }
        syn::visit::visit_item_type(self, t);
    }
    fn visit_item_impl(&mut self, i: &'ast syn::ItemImpl) {
        if let Some((_, tr, _)) = &i.trait_ {
            if tr.segments.last().map(|s| s.ident == "BuildHasher").unwrap_or(false) {
                let ty = quote::ToTokens::to_token_stream(&*i.self_ty).to_string().replace(' ', "");
                let mut hasher = String::new();
                let mut body = String::new();
                for it in &i.items {
                    match it {
                        syn::ImplItem::Type(t) if t.ident == "Hasher" => {
                            hasher = quote::ToTokens::to_token_stream(&t.ty).to_string().replace(' ', "")
                        }
                        syn::ImplItem::Fn(f) if f.sig.ident == "build_hasher" => {
                            body = quote::ToTokens::to_token_stream(&f.block).to_string().replace(' ', "")
                        }
                        _ => {}
                    }
                }
                self.hashers.push(format!("{{\"for\":{},\"hasher\":{},\"body\":{}}}", js(&ty), js(&hasher), js(&body)));
            }
        }
        syn::visit::visit_item_impl(self, i);
    }
    fn visit_item_static(&mut self, s: &'ast syn::ItemStatic) {
        let m = matches!(s.mutability, syn::StaticMutability::Mut(_));
        self.statics.push((s.ident.to_string(), s.ident.span().start().line, m));
        syn::visit::visit_item_static(self, s);
    }
}

fn count_idents(ts: TokenStream, names: &[&str], out: &mut Vec<(String, usize)>) {
    for tt in ts {
        match tt {
            TokenTree::Ident(i) => {
                let s = i.to_string();
                if names.contains(&s.as_str()) {
                    out.push((s, i.span().start().line));
                }
            }
            TokenTree::Group(g) => count_idents(g.stream(), names, out),
            _ => {}
        }
    }
}

fn sites(root: &str) {
    let mut files = Vec::new();
    walk(Path::new(root), &mut files);
    for f in files {
        let src = fs::read_to_string(&f).unwrap();
        let ast = match syn::parse_file(&src) {
            Ok(a) => a,
            Err(e) => {
                println!("{{\"file\":{},\"error\":{}}}", js(&f), js(&e.to_string()));
                continue;
            }
        };
        let mut v = SiteVisitor { uses: vec![], mentions: vec![], aliases: vec![], hashers: vec![], statics: vec![] };
        syn::visit::visit_file(&mut v, &ast);
        let ts: TokenStream = src.parse().unwrap();
        let mut raw = Vec::new();
        count_idents(ts.clone(), HASHED, &mut raw);
        let mut impure = Vec::new();
        count_idents(ts, IMPURE, &mut impure);
        let uses: Vec<String> = v.uses.iter().filter(|(n, p, _)| HASHED.contains(&n.as_str()) || HASHED.iter().any(|h| p.ends_with(h)) || n == "*")
            .map(|(n, p, l)| format!("{{\"name\":{},\"path\":{},\"line\":{}}}", js(n), js(p), l)).collect();
        let mentions: Vec<String> = v.mentions.iter()
            .map(|(n, p, l)| format!("{{\"name\":{},\"path\":{},\"line\":{}}}", js(n), js(p), l)).collect();
        let statics: Vec<String> = v.statics.iter()
            .map(|(n, l, m)| format!("{{\"name\":{},\"line\":{},\"mut\":{}}}", js(n), l, m)).collect();
        let raws: Vec<String> = raw.iter().map(|(n, l)| format!("[{},{}]", js(n), l)).collect();
        let imp: Vec<String> = impure.iter().map(|(n, l)| format!("[{},{}]", js(n), l)).collect();
        println!(
            "{{\"file\":{},\"uses\":[{}],\"mentions\":[{}],\"aliases\":[{}],\"hashers\":[{}],\"statics\":[{}],\"raw_idents\":[{}],\"impure\":[{}]}}",
            js(&f), uses.join(","), mentions.join(","), v.aliases.join(","), v.hashers.join(","), statics.join(","),
            raws.join(","), imp.join(",")
        );
    }
}

// ---------------------------------------------------------------------------------------------
// `translate cfg <crate root dir> <lib.rs>`: facts for C20 (module tree with cfg predicates, items,
// crate-internal references, external crate mentions, derive entry points, macro-generated exports).

fn cfg_json(m: &syn::Meta) -> String {
    match m {
        syn::Meta::Path(p) => format!("{{\"flag\":{}}}", js(&path_str(p))),
        syn::Meta::NameValue(nv) => {
            let k = path_str(&nv.path);
            let v = quote::ToTokens::to_token_stream(&nv.value).to_string();
            let v = v.trim_matches('"').to_string();
            if k == "feature" {
                format!("{{\"feat\":{}}}", js(&v))
            } else {
                format!("{{\"flag\":{}}}", js(&format!("{k}={v}")))
            }
        }
        syn::Meta::List(l) => {
            let k = path_str(&l.path);
            let inner: Vec<syn::Meta> = l
                .parse_args_with(syn::punctuated::Punctuated::<syn::Meta, syn::Token![,]>::parse_terminated)
                .map(|p| p.into_iter().collect())
                .unwrap_or_default();
            let parts: Vec<String> = inner.iter().map(cfg_json).collect();
            match k.as_str() {
                "any" => format!("{{\"any\":[{}]}}", parts.join(",")),
                "all" => format!("{{\"all\":[{}]}}", parts.join(",")),
                "not" => format!("{{\"not\":{}}}", parts.first().cloned().unwrap_or("true".into())),
                _ => format!("{{\"flag\":{}}}", js(&k)),
            }
        }
    }
}

/// Conjunction of the `#[cfg(..)]` attributes of an item.
fn attrs_cfg(attrs: &[syn::Attribute]) -> Vec<String> {
    let mut out = Vec::new();
    for a in attrs {
        if a.path().is_ident("cfg") {
            if let syn::Meta::List(l) = &a.meta {
                if let Ok(inner) = l.parse_args::<syn::Meta>() {
                    out.push(cfg_json(&inner));
                }
            }
        }
    }
    out
}

fn conj(parts: &[String]) -> String {
    if parts.is_empty() {
        "true".into()
    } else if parts.len() == 1 {
        parts[0].clone()
    } else {
        format!("{{\"all\":[{}]}}", parts.join(","))
    }
}

struct CfgOut {
    files: Vec<String>,
    derives: Vec<String>,
    macro_exports: Vec<String>,
}

struct RefVisitor<'a> {
    refs: &'a mut Vec<(String, usize)>,
    ext: &'a mut Vec<(String, usize)>,
}

const EXT_CRATES: &[&str] = &["convert_case", "unicode_xid", "rustc_version", "syn", "quote", "proc_macro2", "proc_macro"];

impl<'ast, 'a> syn::visit::Visit<'ast> for RefVisitor<'a> {
    fn visit_path(&mut self, p: &'ast syn::Path) {
        if let Some(first) = p.segments.first() {
            let f = first.ident.to_string();
            if f == "crate" || f == "super" || f == "self" {
                self.refs.push((path_str(p), first.ident.span().start().line));
            } else if EXT_CRATES.contains(&f.as_str()) && p.segments.len() > 1 {
                self.ext.push((path_str(p), first.ident.span().start().line));
            }
        }
        syn::visit::visit_path(self, p);
    }
    fn visit_item_use(&mut self, u: &'ast syn::ItemUse) {
        let mut leaves = Vec::new();
        use_leaves("", &u.tree, &mut leaves);
        for (_, p, l) in leaves {
            let f = p.split("::").next().unwrap_or("").to_string();
            if f == "crate" || f == "super" || f == "self" {
                self.refs.push((p, l));
            } else if EXT_CRATES.contains(&f.as_str()) {
                self.ext.push((p, l));
            }
        }
    }
    fn visit_macro(&mut self, m: &'ast syn::Macro) {
        // token-level scan of macro bodies for `crate :: a :: b` and external crate paths
        scan_paths(m.tokens.clone(), self.refs, self.ext);
    }
}

fn scan_paths(ts: TokenStream, refs: &mut Vec<(String, usize)>, ext: &mut Vec<(String, usize)>) {
    let toks: Vec<TokenTree> = ts.into_iter().collect();
    let mut i = 0;
    while i < toks.len() {
        match &toks[i] {
            TokenTree::Group(g) => scan_paths(g.stream(), refs, ext),
            TokenTree::Ident(id) => {
                let f = id.to_string();
                let prev_is_path = i >= 2
                    && matches!(&toks[i - 1], TokenTree::Punct(p) if p.as_char() == ':')
                    && matches!(&toks[i - 2], TokenTree::Punct(p) if p.as_char() == ':');
                if !prev_is_path && (f == "crate" || EXT_CRATES.contains(&f.as_str())) {
                    let mut path = f.clone();
                    let mut j = i + 1;
                    while j + 2 < toks.len()
                        && matches!(&toks[j], TokenTree::Punct(p) if p.as_char() == ':')
                        && matches!(&toks[j + 1], TokenTree::Punct(p) if p.as_char() == ':')
                    {
                        if let TokenTree::Ident(n) = &toks[j + 2] {
                            path.push_str("::");
                            path.push_str(&n.to_string());
                            j += 3;
                        } else {
                            break;
                        }
                    }
                    if path.contains("::") {
                        if f == "crate" {
                            refs.push((path, id.span().start().line));
                        } else {
                            ext.push((path, id.span().start().line));
                        }
                    }
                }
            }
            _ => {}
        }
        i += 1;
    }
}

fn item_ident(it: &syn::Item) -> Option<(String, &'static str, &[syn::Attribute])> {
    Some(match it {
        syn::Item::Fn(x) => (x.sig.ident.to_string(), "fn", &x.attrs[..]),
        syn::Item::Struct(x) => (x.ident.to_string(), "struct", &x.attrs[..]),
        syn::Item::Enum(x) => (x.ident.to_string(), "enum", &x.attrs[..]),
        syn::Item::Trait(x) => (x.ident.to_string(), "trait", &x.attrs[..]),
        syn::Item::Type(x) => (x.ident.to_string(), "type", &x.attrs[..]),
        syn::Item::Const(x) => (x.ident.to_string(), "const", &x.attrs[..]),
        syn::Item::Static(x) => (x.ident.to_string(), "static", &x.attrs[..]),
        syn::Item::Mod(x) => (x.ident.to_string(), "mod", &x.attrs[..]),
        syn::Item::Union(x) => (x.ident.to_string(), "union", &x.attrs[..]),
        _ => return None,
    })
}

#[allow(clippy::too_many_arguments)]
fn walk_items(
    items: &[syn::Item], inline: &str, chain: &[String], file_items: &mut Vec<String>, file_refs: &mut Vec<String>,
    file_ext: &mut Vec<String>, submods: &mut Vec<(String, Vec<String>, String)>, out: &mut CfgOut,
) {
    for it in items {
        let own = match it {
            syn::Item::Use(u) => attrs_cfg(&u.attrs),
            syn::Item::Impl(i) => attrs_cfg(&i.attrs),
            syn::Item::Macro(m) => attrs_cfg(&m.attrs),
            syn::Item::ExternCrate(e) => attrs_cfg(&e.attrs),
            other => item_ident(other).map(|(_, _, a)| attrs_cfg(a)).unwrap_or_default(),
        };
        let mut eff: Vec<String> = chain.to_vec();
        eff.extend(own.clone());
        let name_of = |n: &str| if inline.is_empty() { n.to_string() } else { format!("{inline}::{n}") };
        match it {
            syn::Item::Mod(m) => {
                let n = m.ident.to_string();
                let n = n.trim_start_matches("r#").to_string();
                file_items.push(format!("{{\"name\":{},\"kind\":\"mod\",\"cfg\":{},\"line\":{}}}", js(&name_of(&n)), conj(&eff), m.ident.span().start().line));
                if let Some((_, content)) = &m.content {
                    walk_items(content, &name_of(&n), &eff, file_items, file_refs, file_ext, submods, out);
                } else {
                    submods.push((name_of(&n), eff.clone(), n.clone()));
                }
            }
            syn::Item::Use(u) => {
                let mut leaves = Vec::new();
                use_leaves("", &u.tree, &mut leaves);
                let vis = !matches!(u.vis, syn::Visibility::Inherited);
                for (n, p, l) in &leaves {
                    file_items.push(format!(
                        "{{\"name\":{},\"kind\":\"use\",\"target\":{},\"pub\":{},\"cfg\":{},\"line\":{}}}",
                        js(&name_of(n)), js(p), vis, conj(&eff), l
                    ));
                }
                let mut refs = Vec::new();
                let mut ext = Vec::new();
                let mut v = RefVisitor { refs: &mut refs, ext: &mut ext };
                syn::visit::Visit::visit_item_use(&mut v, u);
                for (p, l) in refs {
                    file_refs.push(format!("{{\"path\":{},\"from\":{},\"cfg\":{},\"line\":{}}}", js(&p), js(inline), conj(&eff), l));
                }
                for (p, l) in ext {
                    file_ext.push(format!("{{\"path\":{},\"cfg\":{},\"line\":{}}}", js(&p), conj(&eff), l));
                }
            }
            syn::Item::Macro(m) => {
                let mname = path_str(&m.mac.path);
                if mname == "create_derive" {
                    let toks: Vec<String> = m.mac.tokens.clone().into_iter().filter_map(|t| match t {
                        TokenTree::Literal(l) => Some(l.to_string().trim_matches('"').to_string()),
                        TokenTree::Ident(i) => Some(i.to_string()),
                        _ => None,
                    }).collect();
                    // "feature", module path idents.., Trait, fn_name, attrs..  (module path = idents before the first capitalised one)
                    let feature = toks[0].clone();
                    let mut modp = Vec::new();
                    let mut k = 1;
                    while k < toks.len() && !toks[k].chars().next().unwrap().is_uppercase() {
                        modp.push(toks[k].trim_start_matches("r#").to_string());
                        k += 1;
                    }
                    let tr = toks.get(k).cloned().unwrap_or_default();
                    out.derives.push(format!("{{\"feature\":{},\"module\":{},\"trait\":{}}}", js(&feature), js(&modp.join("::")), js(&tr)));
                } else if mname == "re_export_traits" {
                    let toks: Vec<String> = m.mac.tokens.clone().into_iter().filter_map(|t| match t {
                        TokenTree::Literal(l) => Some(l.to_string().trim_matches('"').to_string()),
                        TokenTree::Ident(i) => Some(i.to_string()),
                        _ => None,
                    }).collect();
                    let feature = toks[0].clone();
                    let traits: Vec<String> = toks[1..].iter().filter(|t| t.chars().next().unwrap().is_uppercase()).map(|t| js(t)).collect();
                    out.macro_exports.push(format!(
                        "{{\"feature\":{},\"module\":{},\"traits\":[{}],\"cfg\":{},\"line\":{}}}",
                        js(&feature), js(inline), traits.join(","), conj(&eff), m.mac.path.segments[0].ident.span().start().line
                    ));
                } else {
                    let mut refs = Vec::new();
                    let mut ext = Vec::new();
                    scan_paths(m.mac.tokens.clone(), &mut refs, &mut ext);
                    for (p, l) in refs {
                        file_refs.push(format!("{{\"path\":{},\"from\":{},\"cfg\":{},\"line\":{}}}", js(&p), js(inline), conj(&eff), l));
                    }
                    for (p, l) in ext {
                        file_ext.push(format!("{{\"path\":{},\"cfg\":{},\"line\":{}}}", js(&p), conj(&eff), l));
                    }
                }
            }
            other => {
                if let Some((n, kind, _)) = item_ident(other) {
                    file_items.push(format!("{{\"name\":{},\"kind\":{},\"cfg\":{},\"line\":0}}", js(&name_of(&n)), js(kind), conj(&eff)));
                }
                let mut refs = Vec::new();
                let mut ext = Vec::new();
                let mut v = RefVisitor { refs: &mut refs, ext: &mut ext };
                syn::visit::Visit::visit_item(&mut v, other);
                for (p, l) in refs {
                    file_refs.push(format!("{{\"path\":{},\"from\":{},\"cfg\":{},\"line\":{}}}", js(&p), js(inline), conj(&eff), l));
                }
                for (p, l) in ext {
                    file_ext.push(format!("{{\"path\":{},\"cfg\":{},\"line\":{}}}", js(&p), conj(&eff), l));
                }
            }
        }
    }
}

fn walk_file(dir: &Path, file: &Path, module: &str, mod_chain: &[String], out: &mut CfgOut) {
    let src = match fs::read_to_string(file) {
        Ok(s) => s,
        Err(e) => {
            out.files.push(format!("{{\"file\":{},\"error\":{}}}", js(&file.to_string_lossy()), js(&e.to_string())));
            return;
        }
    };
    let ast = match syn::parse_file(&src) {
        Ok(a) => a,
        Err(e) => {
            out.files.push(format!("{{\"file\":{},\"error\":{}}}", js(&file.to_string_lossy()), js(&e.to_string())));
            return;
        }
    };
    let (mut items, mut refs, mut ext, mut submods) = (Vec::new(), Vec::new(), Vec::new(), Vec::new());
    walk_items(&ast.items, "", &[], &mut items, &mut refs, &mut ext, &mut submods, out);
    out.files.push(format!(
        "{{\"file\":{},\"module\":{},\"mod_cfg\":{},\"items\":[{}],\"refs\":[{}],\"ext\":[{}]}}",
        js(&file.to_string_lossy()), js(module), conj(mod_chain), items.join(","), refs.join(","), ext.join(",")
    ));
    let is_root_like = file.file_name().map(|f| f == "lib.rs" || f == "mod.rs").unwrap_or(false);
    let base = if is_root_like { dir.to_path_buf() } else { dir.join(file.file_stem().unwrap()) };
    for (inline_path, cfgs, name) in submods {
        // only file modules declared at the top level of the file (inline_path has no `::`) are followed
        let mut sub_dir = base.clone();
        let parts: Vec<&str> = inline_path.split("::").collect();
        for p in &parts[..parts.len() - 1] {
            sub_dir = sub_dir.join(p);
        }
        let f1 = sub_dir.join(format!("{name}.rs"));
        let f2 = sub_dir.join(&name).join("mod.rs");
        let mut chain: Vec<String> = mod_chain.to_vec();
        chain.extend(cfgs);
        let sub_module = if module.is_empty() { inline_path.clone() } else { format!("{module}::{inline_path}") };
        if f1.exists() {
            walk_file(&sub_dir, &f1, &sub_module, &chain, out);
        } else if f2.exists() {
            walk_file(&sub_dir.join(&name), &f2, &sub_module, &chain, out);
        } else {
            out.files.push(format!("{{\"file\":{},\"error\":\"module file not found\"}}", js(&f1.to_string_lossy())));
        }
    }
}

fn cfg_cmd(lib: &str) {
    let lib = Path::new(lib);
    let mut out = CfgOut { files: vec![], derives: vec![], macro_exports: vec![] };
    walk_file(lib.parent().unwrap(), lib, "", &[], &mut out);
    println!(
        "{{\"files\":[{}],\"derives\":[{}],\"macro_exports\":[{}]}}",
        out.files.join(","), out.derives.join(","), out.macro_exports.join(",")
    );
}

// ---------------------------------------------------------------------------------------------
// `translate panics <dir>`: inventory for C18 of the expressions that can abort an expansion.

const PANIC_MACROS: &[&str] = &["panic", "unreachable", "unimplemented", "todo", "assert", "assert_eq", "assert_ne", "debug_assert", "debug_assert_eq"];
const PANIC_METHODS: &[&str] = &["unwrap", "expect", "push_value", "push_punct", "remove", "swap_remove", "split_at", "split_off", "drain", "unwrap_err", "expect_err"];
const TEMPLATE_MACROS: &[&str] = &["quote", "quote_spanned"];

struct PanicVisitor {
    file: String,
    fns: Vec<String>,
    out: Vec<String>,
}

impl PanicVisitor {
    fn site(&mut self, kind: &str, line: usize, text: String) {
        let f = self.fns.last().cloned().unwrap_or_default();
        let mut t = text.replace(' ', "");
        t.truncate(120);
        self.out.push(format!("{{\"file\":{},\"fn\":{},\"kind\":{},\"line\":{},\"text\":{}}}", js(&self.file), js(&f), js(kind), line, js(&t)));
    }
    fn scan_macro_args(&mut self, ts: TokenStream) {
        let toks: Vec<TokenTree> = ts.into_iter().collect();
        for (i, t) in toks.iter().enumerate() {
            match t {
                TokenTree::Group(g) => self.scan_macro_args(g.stream()),
                TokenTree::Ident(id) => {
                    let n = id.to_string();
                    let after_dot = i > 0 && matches!(&toks[i - 1], TokenTree::Punct(p) if p.as_char() == '.');
                    let called = matches!(toks.get(i + 1), Some(TokenTree::Group(g)) if g.delimiter() == Delimiter::Parenthesis);
                    if after_dot && called && PANIC_METHODS.contains(&n.as_str()) {
                        self.site(&n, id.span().start().line, format!(".{n}(..) in macro arguments"));
                    }
                }
                _ => {}
            }
        }
    }
}

fn has_cfg_test(attrs: &[syn::Attribute]) -> bool {
    attrs.iter().any(|a| a.path().is_ident("cfg") && quote::ToTokens::to_token_stream(&a.meta).to_string().replace(' ', "").contains("cfg(test)"))
}

impl<'ast> syn::visit::Visit<'ast> for PanicVisitor {
    fn visit_item_mod(&mut self, m: &'ast syn::ItemMod) {
        if has_cfg_test(&m.attrs) {
            return;
        }
        syn::visit::visit_item_mod(self, m);
    }
    fn visit_item_fn(&mut self, f: &'ast syn::ItemFn) {
        if has_cfg_test(&f.attrs) || f.attrs.iter().any(|a| a.path().is_ident("test")) {
            return;
        }
        self.fns.push(f.sig.ident.to_string());
        syn::visit::visit_item_fn(self, f);
        self.fns.pop();
    }
    fn visit_impl_item_fn(&mut self, f: &'ast syn::ImplItemFn) {
        self.fns.push(f.sig.ident.to_string());
        syn::visit::visit_impl_item_fn(self, f);
        self.fns.pop();
    }
    fn visit_trait_item_fn(&mut self, f: &'ast syn::TraitItemFn) {
        self.fns.push(f.sig.ident.to_string());
        syn::visit::visit_trait_item_fn(self, f);
        self.fns.pop();
    }
    fn visit_expr_index(&mut self, e: &'ast syn::ExprIndex) {
        let line = e.bracket_token.span.open().start().line;
        self.site("index", line, quote::ToTokens::to_token_stream(e).to_string());
        syn::visit::visit_expr_index(self, e);
    }
    fn visit_expr_method_call(&mut self, e: &'ast syn::ExprMethodCall) {
        let n = e.method.to_string();
        if PANIC_METHODS.contains(&n.as_str()) {
            self.site(&n, e.method.span().start().line, quote::ToTokens::to_token_stream(e).to_string());
        }
        syn::visit::visit_expr_method_call(self, e);
    }
    fn visit_expr_binary(&mut self, e: &'ast syn::ExprBinary) {
        let k = match e.op {
            syn::BinOp::Sub(_) | syn::BinOp::SubAssign(_) => Some("sub"),
            syn::BinOp::Div(_) | syn::BinOp::DivAssign(_) => Some("div"),
            syn::BinOp::Rem(_) | syn::BinOp::RemAssign(_) => Some("rem"),
            _ => None,
        };
        if let Some(k) = k {
            let line = match &e.op {
                syn::BinOp::Sub(t) => t.span.start().line,
                syn::BinOp::SubAssign(t) => t.spans[0].start().line,
                syn::BinOp::Div(t) => t.span.start().line,
                syn::BinOp::DivAssign(t) => t.spans[0].start().line,
                syn::BinOp::Rem(t) => t.span.start().line,
                syn::BinOp::RemAssign(t) => t.spans[0].start().line,
                _ => 0,
            };
            self.site(k, line, quote::ToTokens::to_token_stream(e).to_string());
        }
        syn::visit::visit_expr_binary(self, e);
    }
    fn visit_expr_call(&mut self, e: &'ast syn::ExprCall) {
        if let syn::Expr::Path(p) = &*e.func {
            let s = path_str(&p.path);
            if s.ends_with("Ident::new") || s.ends_with("Index::from") || s.ends_with("Literal::from_str") {
                let line = p.path.segments[0].ident.span().start().line;
                self.site("ident_new", line, quote::ToTokens::to_token_stream(e).to_string());
            }
        }
        syn::visit::visit_expr_call(self, e);
    }
    fn visit_macro(&mut self, m: &'ast syn::Macro) {
        let n = m.path.segments.last().map(|s| s.ident.to_string()).unwrap_or_default();
        let line = m.path.segments[0].ident.span().start().line;
        if PANIC_MACROS.contains(&n.as_str()) {
            let mut t = m.tokens.to_string();
            t.truncate(100);
            self.site(&format!("{n}!"), line, t);
        } else if n == "format_ident" || n == "parse_quote" || n == "parse_quote_spanned" {
            self.site(&format!("{n}!"), line, String::new());
        }
        if !TEMPLATE_MACROS.contains(&n.as_str()) && n != "parse_quote" && n != "parse_quote_spanned" {
            self.scan_macro_args(m.tokens.clone());
        }
    }
}

fn panics(root: &str) {
    let mut files = Vec::new();
    walk(Path::new(root), &mut files);
    for f in files {
        let src = fs::read_to_string(&f).unwrap();
        match syn::parse_file(&src) {
            Ok(ast) => {
                let mut v = PanicVisitor { file: f.clone(), fns: vec![], out: vec![] };
                syn::visit::visit_file(&mut v, &ast);
                for l in v.out {
                    println!("{l}");
                }
            }
            Err(e) => println!("{{\"file\":{},\"error\":{}}}", js(&f), js(&e.to_string())),
        }
    }
}

fn main() {
    let args: Vec<String> = env::args().collect();
    match args.get(1).map(|s| s.as_str()) {
        Some("templates") => {
            let root = &args[2];
            let mut files = Vec::new();
            walk(Path::new(root), &mut files);
            for f in files {
                let src = fs::read_to_string(&f).unwrap();
                let ts: TokenStream = match src.parse() {
                    Ok(t) => t,
                    Err(e) => {
                        println!("{{\"file\":{},\"error\":{}}}", js(&f), js(&e.to_string()));
                        continue;
                    }
                };
                let mut out = Vec::new();
                scan(&f, ts, &mut out);
                for l in out {
                    println!("{l}");
                }
            }
        }
        Some("sites") => sites(&args[2]),
        Some("panics") => panics(&args[2]),
        Some("cfg") => cfg_cmd(&args[2]),
        Some("tokens") => {
            let src = fs::read_to_string(&args[2]).unwrap();
            let ts: TokenStream = src.parse().unwrap();
            let mut b = Vec::new();
            body(ts, false, &mut b);
            println!("[{}]", b.join(","));
        }
        _ => eprintln!("usage: translate templates <dir> | tokens <file>"),
    }
}

//! Runtime harness: the working-tree `src/fmt.rs` (the crate's own DebugTuple) is included by
//! path and run next to core's builders on scripted fields.
//!   dtup <spec idx> <hex name> <ex|nx> <field>,<field>,...   field := l<hex> | f | i<u32> | n
//!   probe <spec idx>                                          what the `f` field prints under that spec
//!   dval <spec idx> <tree>     tree := field | (T <hex name> <ex|nx> tree...) | (S <hex name> <ex|nx> <hex fname> tree ...)
//!                              tuple nodes: the crate's DebugTuple (dm) / core's (std); struct nodes: core's DebugStruct
#![allow(dead_code)]
use std::fmt::{self, Debug, Formatter};
use std::io::{self, BufRead, Write};

#[path = "/repo/src/fmt.rs"]
mod dmfmt;

fn hex_decode(s: &str) -> Option<String> {
    if s == "-" {
        return Some(String::new());
    }
    let mut bytes = Vec::new();
    for i in (0..s.len()).step_by(2) {
        bytes.push(u8::from_str_radix(s.get(i..i + 2)?, 16).ok()?);
    }
    String::from_utf8(bytes).ok()
}
fn hex_encode(s: &str) -> String {
    if s.is_empty() {
        return "-".into();
    }
    s.bytes().map(|b| format!("{b:02x}")).collect()
}

#[derive(Debug)]
struct Inner(u8, &'static str);

enum Field {
    Lit(String),
    /// several `write_str` calls in a row (a hand-written `Debug` that writes a label, then a multi-line value, ...)
    Multi(Vec<String>),
    Flags,
    Int(u32),
    Nested,
}

impl Debug for Field {
    fn fmt(&self, f: &mut Formatter<'_>) -> fmt::Result {
        match self {
            Field::Lit(s) => f.write_str(s),
            Field::Multi(chunks) => chunks.iter().try_for_each(|c| f.write_str(c)),
            Field::Flags => write!(
                f,
                "[alt={} w={:?} p={:?} fill={:?} plus={} zero={}]",
                f.alternate(),
                f.width(),
                f.precision(),
                f.fill(),
                f.sign_plus(),
                f.sign_aware_zero_pad()
            ),
            Field::Int(n) => Debug::fmt(n, f),
            Field::Nested => Debug::fmt(&Inner(7, "a\nb"), f),
        }
    }
}

enum Node {
    Leaf(Field),
    Tuple(String, bool, Vec<Node>),
    Struct(String, bool, Vec<(String, Node)>),
}

struct View<'a>(&'a Node, bool);

impl Debug for View<'_> {
    fn fmt(&self, f: &mut Formatter<'_>) -> fmt::Result {
        let dm = self.1;
        match self.0 {
            Node::Leaf(x) => Debug::fmt(x, f),
            Node::Tuple(name, ex, kids) => {
                if dm {
                    let mut b = dmfmt::debug_tuple(f, name);
                    for k in kids {
                        b.field(&View(k, dm));
                    }
                    if *ex { b.finish() } else { b.finish_non_exhaustive() }
                } else {
                    let mut b = f.debug_tuple(name);
                    for k in kids {
                        b.field(&View(k, dm));
                    }
                    if *ex { b.finish() } else { b.finish_non_exhaustive() }
                }
            }
            Node::Struct(name, ex, kids) => {
                let mut b = f.debug_struct(name);
                for (n, k) in kids {
                    b.field(n, &View(k, dm));
                }
                if *ex { b.finish() } else { b.finish_non_exhaustive() }
            }
        }
    }
}

fn parse_tree(toks: &[&str], pos: &mut usize) -> Option<Node> {
    let t = *toks.get(*pos)?;
    *pos += 1;
    if t != "(" {
        return parse_fields(t)?.into_iter().next().map(Node::Leaf);
    }
    let kind = *toks.get(*pos)?;
    let name = hex_decode(toks.get(*pos + 1)?)?;
    let ex = *toks.get(*pos + 2)? == "ex";
    *pos += 3;
    match kind {
        "T" => {
            let mut kids = vec![];
            while *toks.get(*pos)? != ")" {
                kids.push(parse_tree(toks, pos)?);
            }
            *pos += 1;
            Some(Node::Tuple(name, ex, kids))
        }
        "S" => {
            let mut kids = vec![];
            while *toks.get(*pos)? != ")" {
                let n = hex_decode(toks.get(*pos)?)?;
                *pos += 1;
                kids.push((n, parse_tree(toks, pos)?));
            }
            *pos += 1;
            Some(Node::Struct(name, ex, kids))
        }
        _ => None,
    }
}

struct Run<'a> {
    name: &'a str,
    fields: &'a [Field],
    exhaustive: bool,
    dm: bool,
}

impl Debug for Run<'_> {
    fn fmt(&self, f: &mut Formatter<'_>) -> fmt::Result {
        if self.dm {
            let mut b = dmfmt::debug_tuple(f, self.name);
            for x in self.fields {
                b.field(x);
            }
            if self.exhaustive { b.finish() } else { b.finish_non_exhaustive() }
        } else {
            let mut b = f.debug_tuple(self.name);
            for x in self.fields {
                b.field(x);
            }
            if self.exhaustive { b.finish() } else { b.finish_non_exhaustive() }
        }
    }
}

macro_rules! specs {
    ($idx:expr, $v:expr, $($i:literal => $s:literal),*) => {
        match $idx { $($i => Some(format!($s, $v)),)* _ => None }
    };
}

fn apply(idx: usize, v: &dyn Debug) -> Option<String> {
    specs!(idx, v,
        0 => "{:?}", 1 => "{:#?}", 2 => "{:x?}", 3 => "{:#x?}", 4 => "{:#X?}", 5 => "{:10?}",
        6 => "{:#10?}", 7 => "{:<#12.3?}", 8 => "{:#.2?}", 9 => "{:*^#20?}", 10 => "{:+#?}",
        11 => "{:#08?}", 12 => "{:+?}", 13 => "{:.1?}")
}

fn parse_fields(s: &str) -> Option<Vec<Field>> {
    if s == "-" {
        return Some(vec![]);
    }
    s.split(',')
        .map(|p| {
            if let Some(h) = p.strip_prefix('l') {
                hex_decode(h).map(Field::Lit)
            } else if let Some(hs) = p.strip_prefix('m') {
                hs.split('~').map(|h| if h == "-" { Some(String::new()) } else { hex_decode(h) }).collect::<Option<Vec<_>>>().map(Field::Multi)
            } else if p == "f" {
                Some(Field::Flags)
            } else if let Some(n) = p.strip_prefix('i') {
                n.parse().ok().map(Field::Int)
            } else if p == "n" {
                Some(Field::Nested)
            } else {
                None
            }
        })
        .collect()
}

fn handle(line: &str) -> String {
    let parts: Vec<&str> = line.split_whitespace().collect();
    match parts.as_slice() {
        ["dtup", idx, name, fin, fields] => {
            let (Ok(idx), Some(name), Some(fields)) = (idx.parse::<usize>(), hex_decode(name), parse_fields(fields)) else {
                return "bad-op".into();
            };
            let ex = *fin == "ex";
            let dm = apply(idx, &Run { name: &name, fields: &fields, exhaustive: ex, dm: true });
            let st = apply(idx, &Run { name: &name, fields: &fields, exhaustive: ex, dm: false });
            match (dm, st) {
                (Some(d), Some(s)) => format!("dm={} std={}", hex_encode(&d), hex_encode(&s)),
                _ => "bad-op".into(),
            }
        }
        ["dval", idx, tree @ ..] => {
            let spaced = tree.join(" ").replace('(', " ( ").replace(')', " ) ");
            let toks: Vec<&str> = spaced.split_whitespace().collect();
            let mut pos = 0;
            let (Ok(idx), Some(node)) = (idx.parse::<usize>(), parse_tree(&toks, &mut pos)) else {
                return "bad-op".into();
            };
            if pos != toks.len() {
                return "bad-op".into();
            }
            match (apply(idx, &View(&node, true)), apply(idx, &View(&node, false))) {
                (Some(d), Some(s)) => format!("dm={} std={}", hex_encode(&d), hex_encode(&s)),
                _ => "bad-op".into(),
            }
        }
        ["probe", idx] => match idx.parse::<usize>().ok().and_then(|i| apply(i, &Field::Flags)) {
            Some(s) => hex_encode(&s),
            None => "bad-op".into(),
        },
        _ => "bad-op".into(),
    }
}

fn main() {
    let stdin = io::stdin();
    let stdout = io::stdout();
    let mut out = io::BufWriter::new(stdout.lock());
    for line in stdin.lock().lines() {
        let Ok(line) = line else { break };
        if line.trim().is_empty() {
            continue;
        }
        let l = line.clone();
        let ans = std::panic::catch_unwind(move || handle(&l)).unwrap_or_else(|_| "panic".into());
        let _ = writeln!(out, "{ans}");
    }
    let _ = out.flush();
}

//! In-process harness: the working-tree sources of `derive_more-impl` are included by path, so
//! every build of this binary is a build of /repo's current working tree.
//!
//! Line protocol (stdin -> stdout), one request per line, one answer per line:
//!   fmt <hex utf8>                 parse a format literal with the real parser
//!   expand <Derive> <hex source>   run the real expander on an item
//!   split <hex source>             parse `"<lit>", args...` as the real FmtAttribute
//!   derives                        list the derives of lib.rs
#![allow(mismatched_lifetime_syntaxes)]
#![allow(dead_code, unused_imports, unused_macros, clippy::all)]
#![recursion_limit = "128"]

#[path = "/repo/impl/src/utils.rs"]
mod utils;

#[path = "/repo/impl/src/add_assign_like.rs"]
mod add_assign_like;
#[path = "/repo/impl/src/add_helpers.rs"]
mod add_helpers;
#[path = "/repo/impl/src/add_like.rs"]
mod add_like;
#[path = "/repo/impl/src/as/mod.rs"]
mod r#as;
#[path = "/repo/impl/src/constructor.rs"]
mod constructor;
#[path = "/repo/impl/src/deref.rs"]
mod deref;
#[path = "/repo/impl/src/deref_mut.rs"]
mod deref_mut;
#[path = "/repo/impl/src/error.rs"]
mod error;
#[path = "/repo/impl/src/fmt/mod.rs"]
mod fmt;
#[path = "/repo/impl/src/from.rs"]
mod from;
#[path = "/repo/impl/src/from_str.rs"]
mod from_str;
#[path = "/repo/impl/src/index.rs"]
mod index;
#[path = "/repo/impl/src/index_mut.rs"]
mod index_mut;
#[path = "/repo/impl/src/into.rs"]
mod into;
#[path = "/repo/impl/src/into_iterator.rs"]
mod into_iterator;
#[path = "/repo/impl/src/is_variant.rs"]
mod is_variant;
#[path = "/repo/impl/src/mul_assign_like.rs"]
mod mul_assign_like;
#[path = "/repo/impl/src/mul_helpers.rs"]
mod mul_helpers;
#[path = "/repo/impl/src/mul_like.rs"]
mod mul_like;
#[path = "/repo/impl/src/not_like.rs"]
mod not_like;
#[path = "/repo/impl/src/parsing.rs"]
pub(crate) mod parsing;
#[path = "/repo/impl/src/sum_like.rs"]
mod sum_like;
#[path = "/repo/impl/src/try_from.rs"]
mod try_from;
#[path = "/repo/impl/src/try_into.rs"]
mod try_into;
#[path = "/repo/impl/src/try_unwrap.rs"]
mod try_unwrap;
#[path = "/repo/impl/src/unwrap.rs"]
mod unwrap;

/// Second inclusion of the literal parser: its items are private to `fmt` in the real crate.
#[path = "/repo/impl/src/fmt/parsing.rs"]
mod fmt_parsing;

mod dispatch {
    trait Out {
        fn out(self) -> Result<proc_macro2::TokenStream, syn::Error>;
    }
    impl Out for proc_macro2::TokenStream {
        fn out(self) -> Result<proc_macro2::TokenStream, syn::Error> {
            Ok(self)
        }
    }
    impl Out for Result<proc_macro2::TokenStream, syn::Error> {
        fn out(self) -> Result<proc_macro2::TokenStream, syn::Error> {
            self
        }
    }
    fn out<T: Out>(t: T) -> Result<proc_macro2::TokenStream, syn::Error> {
        t.out()
    }
    include!(concat!(env!("OUT_DIR"), "/dispatch.rs"));
}

mod proto;

fn main() {
    proto::run();
}

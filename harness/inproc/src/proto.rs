//! Line protocol of the in-process harness.

use std::{
    cell::RefCell,
    io::{self, BufRead, Write},
    panic,
};

use crate::fmt_parsing as fp;

thread_local! {
    static LAST_PANIC: RefCell<Option<String>> = const { RefCell::new(None) };
}

pub fn hex_decode(s: &str) -> Option<String> {
    if s == "-" {
        return Some(String::new());
    }
    if s.len() % 2 != 0 {
        return None;
    }
    let mut bytes = Vec::with_capacity(s.len() / 2);
    for i in (0..s.len()).step_by(2) {
        bytes.push(u8::from_str_radix(s.get(i..i + 2)?, 16).ok()?);
    }
    String::from_utf8(bytes).ok()
}

pub fn hex_encode(s: &str) -> String {
    if s.is_empty() {
        return "-".into();
    }
    s.bytes().map(|b| format!("{b:02x}")).collect()
}

fn one_line(s: &str) -> String {
    s.replace(['\n', '\r'], " ")
}

fn show_arg(a: &fp::Argument<'_>) -> String {
    match a {
        fp::Argument::Integer(i) => format!("i{i}"),
        fp::Argument::Identifier(n) => format!("n{}", hex_encode(n)),
    }
}

fn show_count(c: &fp::Count<'_>) -> String {
    match c {
        fp::Count::Integer(i) => format!("i{i}"),
        fp::Count::Parameter(a) => format!("p{}", show_arg(a)),
    }
}

fn show_format(f: &fp::Format<'_>) -> String {
    let arg = f.arg.as_ref().map(show_arg).unwrap_or_else(|| "-".into());
    let spec = match &f.spec {
        None => "nospec".to_string(),
        Some(s) => {
            let al = match &s.align {
                None => "-".to_string(),
                Some((fill, a)) => {
                    let a = match a {
                        fp::Align::Left => "L",
                        fp::Align::Center => "C",
                        fp::Align::Right => "R",
                    };
                    match fill {
                        None => a.to_string(),
                        Some(c) => format!("{a}.{:x}", *c as u32),
                    }
                }
            };
            let sg = match s.sign {
                None => "-",
                Some(fp::Sign::Plus) => "P",
                Some(fp::Sign::Minus) => "M",
            };
            let w = s.width.as_ref().map(show_count).unwrap_or_else(|| "-".into());
            let p = match &s.precision {
                None => "-".to_string(),
                Some(fp::Precision::Star) => "*".to_string(),
                Some(fp::Precision::Count(c)) => show_count(c),
            };
            format!(
                "al={al},sg={sg},alt={},zp={},w={w},p={p},ty={:?}",
                s.alternate.is_some() as u8,
                s.zero_padding.is_some() as u8,
                s.ty
            )
        }
    };
    format!("F({arg};{spec})")
}

fn cmd_fmt(arg: &str) -> String {
    let Some(s) = hex_decode(arg) else {
        return "bad-op".into();
    };
    let mut out = match fp::format_string(&s) {
        None => "none".to_string(),
        Some(fs) => {
            let v: Vec<String> = fs.formats.iter().map(show_format).collect();
            format!("ok {}", v.join(" "))
        }
    };
    // single-placeholder parser (what the transparency decision uses)
    out.push_str(" | one=");
    match fp::format(&s) {
        Some((rest, f)) if rest.is_empty() => out.push_str(&show_format(&f)),
        Some(_) => out.push_str("trailing"),
        None => out.push_str("none"),
    }
    #[cfg(feature = "jeltef_derive_more_verif")]
    {
        out.push_str(" | ph=");
        let v: Vec<String> = crate::fmt::verif_hooks::placeholders(&s)
            .into_iter()
            .map(|(arg, mods, tr)| {
                let a = match arg {
                    Ok(i) => format!("i{i}"),
                    Err(n) => format!("n{}", hex_encode(&n)),
                };
                format!("P({a},{},{tr})", mods as u8)
            })
            .collect();
        out.push_str(&v.join(" "));
    }
    out
}

fn cmd_expand(rest: &str) -> String {
    let mut it = rest.splitn(2, ' ');
    let (Some(name), Some(hex)) = (it.next(), it.next()) else {
        return "bad-op".into();
    };
    let Some(src) = hex_decode(hex.trim()) else {
        return "bad-op".into();
    };
    let ast = match syn::parse_str::<syn::DeriveInput>(&src) {
        Ok(a) => a,
        Err(e) => return format!("synerr {}", one_line(&e.to_string())),
    };
    match crate::dispatch::dispatch(name, &ast) {
        None => "bad-derive".into(),
        Some(Ok(ts)) => format!("ok {}", one_line(&ts.to_string())),
        Some(Err(e)) => format!("err {}", one_line(&e.to_string())),
    }
}

/// `expandg <Derive> <hex item>`: like `expand`, but every field type is wrapped in a `Type::Group` (an invisible
/// `Delimiter::None` group), which is how a type arrives when the item is produced by `macro_rules!` with a `$t:ty`
/// fragment.
fn cmd_expand_grouped(rest: &str) -> String {
    let mut it = rest.splitn(2, ' ');
    let (Some(name), Some(hex)) = (it.next(), it.next()) else {
        return "bad-op".into();
    };
    let Some(src) = hex_decode(hex.trim()) else {
        return "bad-op".into();
    };
    let mut ast = match syn::parse_str::<syn::DeriveInput>(&src) {
        Ok(a) => a,
        Err(e) => return format!("synerr {}", one_line(&e.to_string())),
    };
    fn wrap(fields: &mut syn::Fields) {
        for f in fields.iter_mut() {
            let elem = Box::new(f.ty.clone());
            f.ty = syn::Type::Group(syn::TypeGroup { group_token: Default::default(), elem });
        }
    }
    match &mut ast.data {
        syn::Data::Struct(s) => wrap(&mut s.fields),
        syn::Data::Enum(e) => e.variants.iter_mut().for_each(|v| wrap(&mut v.fields)),
        syn::Data::Union(u) => {
            for f in u.fields.named.iter_mut() {
                let elem = Box::new(f.ty.clone());
                f.ty = syn::Type::Group(syn::TypeGroup { group_token: Default::default(), elem });
            }
        }
    }
    match crate::dispatch::dispatch(name, &ast) {
        None => "bad-derive".into(),
        Some(Ok(ts)) => format!("ok {}", one_line(&ts.to_string())),
        Some(Err(e)) => format!("err {}", one_line(&e.to_string())),
    }
}

#[cfg(feature = "jeltef_derive_more_verif")]
fn cmd_meta(rest: &str) -> String {
    // meta <attr name> <comma separated allowed params | -> <hex attributes source>  ->  ok <7 flags> | err <msg>
    let mut it = rest.split(' ');
    let (Some(name), Some(allowed), Some(h)) = (it.next(), it.next(), it.next()) else {
        return "bad-op".into();
    };
    let Some(src) = hex_decode(h) else {
        return "bad-op".into();
    };
    let allowed: Vec<&str> = if allowed == "-" { vec![] } else { allowed.split(',').collect() };
    match crate::utils::verif_hooks::meta_info(name, &src, &allowed) {
        Ok(flags) => format!("ok {flags}"),
        Err(e) => format!("err {}", one_line(&e)),
    }
}

#[cfg(feature = "jeltef_derive_more_verif")]
fn cmd_comb(rest: &str) -> String {
    // comb <name> <hex input>  ->  ok <hex rest> <hex consumed> | none | bad-op
    let mut it = rest.split(' ');
    let (Some(name), Some(h)) = (it.next(), it.next()) else {
        return "bad-op".into();
    };
    let Some(input) = hex_decode(h) else {
        return "bad-op".into();
    };
    match crate::fmt_parsing::verif_hooks::combinator(name, &input) {
        None => "bad-op".into(),
        Some(None) => "none".into(),
        Some(Some((rest, taken))) => format!("ok {} {}", hex_encode(rest), hex_encode(taken)),
    }
}

#[cfg(feature = "jeltef_derive_more_verif")]
fn cmd_attr(rest: &str) -> String {
    // attr <hex attribute body tokens> <hex fields source: `(A, B)` | `{a: A}` | `;`>
    let mut it = rest.split(' ');
    let (Some(a), Some(f)) = (it.next(), it.next()) else {
        return "bad-op".into();
    };
    let (Some(a), Some(f)) = (hex_decode(a), hex_decode(f)) else {
        return "bad-op".into();
    };
    let item = format!("struct S {f}");
    let fields = match syn::parse_str::<syn::DeriveInput>(&item) {
        Ok(syn::DeriveInput {
            data: syn::Data::Struct(s),
            ..
        }) => s.fields,
        _ => return "synerr fields".into(),
    };
    let ts: proc_macro2::TokenStream = match a.parse() {
        Ok(t) => t,
        Err(_) => return "lexerr".into(),
    };
    match crate::fmt::verif_hooks::fmt_attr(ts, &fields) {
        Err(e) => format!("err {}", one_line(&e.to_string())),
        Ok(info) => format!("ok {}", one_line(&info)),
    }
}

/// `xid <hex>`: per character the classes derive_more's parser uses (`unicode-xid`), and
/// `char::is_whitespace`.
fn cmd_xid(arg: &str) -> String {
    use unicode_xid::UnicodeXID as _;
    let Some(s) = hex_decode(arg) else {
        return "bad-op".into();
    };
    s.chars()
        .map(|c| {
            format!(
                "{}{}{}",
                if c.is_xid_start() { 's' } else { '-' },
                if c.is_xid_continue() { 'c' } else { '-' },
                if c.is_whitespace() { 'w' } else { '-' }
            )
        })
        .collect::<Vec<_>>()
        .join(",")
}

/// Same digest as the oracle's `xidtable`, over the `unicode-xid` tables (`_` counted as start).
/// The hypotheses `Sane` of the Lean round-trip theorem, checked on the tables the parser really uses.
fn cmd_sanetable() -> String {
    use unicode_xid::UnicodeXID as _;
    for u in 0..=0x10FFFFu32 {
        let Some(c) = char::from_u32(u) else { continue };
        let (start, cont, ws, digit) = (c.is_xid_start(), c.is_xid_continue(), c.is_whitespace(), c.is_ascii_digit());
        if digit && (start || c == '_' || ws) {
            return format!("bad digit_plain U+{u:04X}");
        }
        if ws && (cont || start || digit || c == '_' || c == ':' || c == '{' || c == '}') {
            return format!("bad ws_plain U+{u:04X}");
        }
        if start && (c == '{' || c == '}') {
            return format!("bad start_plain U+{u:04X}");
        }
    }
    for c in ['{', '}'] {
        if c.is_xid_continue() || c.is_xid_start() || c.is_whitespace() {
            return format!("bad brace_plain {c}");
        }
    }
    // `Sane2`: the punctuation of the spec grammar is neither identifier material nor whitespace,
    // and the type letters are not whitespace.
    for c in [':', '$', '.', '?', '+', '-', '#', '<', '^', '>', '*'] {
        if c.is_xid_continue() || c.is_xid_start() || c.is_whitespace() {
            return format!("bad special_plain {c}");
        }
    }
    for c in ['x', 'X', 'o', 'p', 'b', 'e', 'E'] {
        if c.is_whitespace() {
            return format!("bad letter_plain {c}");
        }
    }
    "ok".into()
}

fn cmd_xidtable() -> String {
    use unicode_xid::UnicodeXID as _;
    let mut out = String::new();
    for (name, start) in [("start", true), ("cont", false)] {
        let mut h: u64 = 0xcbf29ce484222325;
        let mut n = 0u32;
        for u in 0..=0x10FFFFu32 {
            if let Some(c) = char::from_u32(u) {
                let v = if start { c == '_' || c.is_xid_start() } else { c.is_xid_continue() };
                if v {
                    n += 1;
                    h = (h ^ u as u64).wrapping_mul(0x100000001b3);
                }
            }
        }
        out.push_str(&format!("{name}:{n}:{h:x} "));
    }
    out
}

/// `case <case id> <hex name>`: the `convert_case` crate (external dependency of the derives).
fn cmd_case(rest: &str) -> String {
    use convert_case::{Case, Casing as _};
    let Some((case, name)) = rest.split_once(' ') else {
        return "bad-op".into();
    };
    let Some(name) = hex_decode(name) else {
        return "bad-op".into();
    };
    let case = match case {
        "lower" => Case::Flat,
        "upper" => Case::UpperFlat,
        "pascal" => Case::Pascal,
        "camel" => Case::Camel,
        "snake" => Case::Snake,
        "screamingSnake" => Case::UpperSnake,
        "kebab" => Case::Kebab,
        "screamingKebab" => Case::UpperKebab,
        _ => return "bad-op".into(),
    };
    hex_encode(&name.to_case(case))
}

fn handle(line: &str) -> String {
    let line = line.trim_end_matches(['\n', '\r']);
    let (cmd, rest) = match line.split_once(' ') {
        Some((c, r)) => (c, r),
        None => (line, ""),
    };
    match cmd {
        "fmt" => cmd_fmt(rest.trim()),
        "expand" => cmd_expand(rest),
        "expandg" => cmd_expand_grouped(rest),
        #[cfg(feature = "jeltef_derive_more_verif")]
        "attr" => cmd_attr(rest),
        #[cfg(feature = "jeltef_derive_more_verif")]
        "comb" => cmd_comb(rest.trim()),
        #[cfg(feature = "jeltef_derive_more_verif")]
        "meta" => cmd_meta(rest.trim()),
        "derives" => crate::dispatch::DERIVES.join(" "),
        "xid" => cmd_xid(rest.trim()),
        "case" => cmd_case(rest.trim()),
        "lower" => hex_decode(rest.trim()).map(|s| hex_encode(&s.to_lowercase())).unwrap_or_else(|| "bad-op".into()),
        "xidtable" => cmd_xidtable(),
        "sanetable" => cmd_sanetable(),
        _ => "bad-op".into(),
    }
}

pub fn run() {
    panic::set_hook(Box::new(|info| {
        let loc = info
            .location()
            .map(|l| format!("{}:{}", l.file(), l.line()))
            .unwrap_or_else(|| "?".into());
        let msg = if let Some(s) = info.payload().downcast_ref::<&str>() {
            (*s).to_string()
        } else if let Some(s) = info.payload().downcast_ref::<String>() {
            s.clone()
        } else {
            "?".into()
        };
        LAST_PANIC.with(|p| *p.borrow_mut() = Some(format!("{loc} {}", one_line(&msg))));
    }));
    let stdin = io::stdin();
    let stdout = io::stdout();
    let mut out = io::BufWriter::new(stdout.lock());
    for line in stdin.lock().lines() {
        let Ok(line) = line else { break };
        if line.is_empty() {
            continue;
        }
        let l2 = line.clone();
        let res = panic::catch_unwind(move || handle(&l2));
        let ans = match res {
            Ok(a) => a,
            Err(_) => {
                let p = LAST_PANIC.with(|p| p.borrow_mut().take());
                format!("panic {}", p.unwrap_or_else(|| "?".into()))
            }
        };
        let _ = writeln!(out, "{ans}");
    }
    let _ = out.flush();
}

// Generates the derive dispatch table from /repo/impl/src/lib.rs (`create_derive!` invocations),
// so that the harness calls exactly the expander the proc-macro entry point calls.
use std::{env, fs, path::Path};

fn main() {
    let repo = env::var("DMV_REPO").unwrap_or_else(|_| "/repo".into());
    let lib = format!("{repo}/impl/src/lib.rs");
    println!("cargo:rerun-if-changed={lib}");
    println!("cargo:rerun-if-env-changed=DMV_REPO");
    let src = fs::read_to_string(&lib).expect("read lib.rs");
    let mut arms = String::new();
    let mut names = Vec::new();
    let mut rest = src.as_str();
    while let Some(pos) = rest.find("create_derive!(") {
        let after = &rest[pos + "create_derive!(".len()..];
        let end = after.find(");").expect("unterminated create_derive");
        let body = &after[..end];
        rest = &after[end..];
        if body.trim_start().starts_with('$') || body.contains("$feature") {
            continue;
        }
        let parts: Vec<String> = body
            .split(',')
            .map(|s| s.trim().to_string())
            .filter(|s| !s.is_empty())
            .collect();
        if parts.len() < 4 || !parts[0].starts_with('"') {
            continue;
        }
        let module = parts[1].replace(' ', "");
        let tr = parts[2].clone();
        arms.push_str(&format!(
            "        \"{tr}\" => Some(out(crate::{module}::expand(ast, \"{tr}\"))),\n"
        ));
        names.push(tr);
    }
    let code = format!(
        "pub fn dispatch(name: &str, ast: &syn::DeriveInput) -> Option<Result<proc_macro2::TokenStream, syn::Error>> {{\n    match name {{\n{arms}        _ => None,\n    }}\n}}\npub const DERIVES: &[&str] = &[{}];\n",
        names.iter().map(|n| format!("\"{n}\"")).collect::<Vec<_>>().join(", ")
    );
    let out = env::var("OUT_DIR").unwrap();
    fs::write(Path::new(&out).join("dispatch.rs"), code).unwrap();
}
